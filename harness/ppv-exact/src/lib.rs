//! Exact dyadic arithmetic and a rounded big-float with `ln`/`exp`, the
//! numeric oracle of the /verif checks. No dependency on the library under
//! test and none on libm for anything that is used as a reference value.

pub mod mag;

use mag::Mag;
use std::cmp::Ordering;
use std::sync::OnceLock;

/// `±mag · 2^exp`, exact. Zero is `mag == []` (sign false, exp 0).
#[derive(Clone, Debug)]
pub struct Dy {
    pub neg: bool,
    pub mag: Mag,
    pub exp: i64,
}

impl PartialEq for Dy {
    fn eq(&self, o: &Dy) -> bool {
        self.cmp(o) == Ordering::Equal
    }
}
impl Eq for Dy {}
impl PartialOrd for Dy {
    fn partial_cmp(&self, o: &Dy) -> Option<Ordering> {
        Some(self.cmp(o))
    }
}
impl Ord for Dy {
    fn cmp(&self, o: &Dy) -> Ordering {
        Dy::cmp(self, o)
    }
}

impl Dy {
    pub fn zero() -> Dy {
        Dy { neg: false, mag: Vec::new(), exp: 0 }
    }
    pub fn one() -> Dy {
        Dy::from_i64(1)
    }
    pub fn from_i64(x: i64) -> Dy {
        Dy { neg: x < 0, mag: mag::from_u64(x.unsigned_abs()), exp: 0 }.normed()
    }
    pub fn from_u64(x: u64) -> Dy {
        Dy { neg: false, mag: mag::from_u64(x), exp: 0 }.normed()
    }
    pub fn pow2(e: i64) -> Dy {
        Dy { neg: false, mag: vec![1], exp: e }
    }
    /// exact conversion of a finite f64 (the sign of zero is dropped)
    pub fn from_f64(x: f64) -> Dy {
        assert!(x.is_finite(), "Dy::from_f64 of non-finite {x}");
        let b = x.to_bits();
        let neg = (b >> 63) == 1;
        let e = ((b >> 52) & 0x7ff) as i64;
        let f = b & ((1u64 << 52) - 1);
        let (m, exp) = if e == 0 { (f, -1074) } else { (f | (1u64 << 52), e - 1075) };
        Dy { neg, mag: mag::from_u64(m), exp }.normed()
    }
    fn normed(mut self) -> Dy {
        mag::norm(&mut self.mag);
        if self.mag.is_empty() {
            self.neg = false;
            self.exp = 0;
        } else {
            // keep mantissas short: strip whole zero limbs / trailing zeros
            let tz = mag::trailing_zeros(&self.mag);
            if tz > 0 {
                self.mag = mag::shr(&self.mag, tz);
                self.exp += tz as i64;
            }
        }
        self
    }
    pub fn is_zero(&self) -> bool {
        self.mag.is_empty()
    }
    pub fn sign(&self) -> i32 {
        if self.mag.is_empty() {
            0
        } else if self.neg {
            -1
        } else {
            1
        }
    }
    pub fn abs(&self) -> Dy {
        Dy { neg: false, mag: self.mag.clone(), exp: self.exp }
    }
    pub fn neg(&self) -> Dy {
        if self.is_zero() {
            self.clone()
        } else {
            Dy { neg: !self.neg, mag: self.mag.clone(), exp: self.exp }
        }
    }
    /// floor(log2 |self|); panics on zero
    pub fn top(&self) -> i64 {
        assert!(!self.is_zero());
        self.exp + mag::bits(&self.mag) as i64 - 1
    }
    pub fn mul_pow2(&self, k: i64) -> Dy {
        if self.is_zero() {
            self.clone()
        } else {
            Dy { neg: self.neg, mag: self.mag.clone(), exp: self.exp + k }
        }
    }
    pub fn mul(&self, o: &Dy) -> Dy {
        if self.is_zero() || o.is_zero() {
            return Dy::zero();
        }
        Dy { neg: self.neg != o.neg, mag: mag::mul(&self.mag, &o.mag), exp: self.exp + o.exp }.normed()
    }
    pub fn mul_u64(&self, m: u64) -> Dy {
        if self.is_zero() || m == 0 {
            return Dy::zero();
        }
        Dy { neg: self.neg, mag: mag::mul_small(&self.mag, m), exp: self.exp }.normed()
    }
    pub fn sq(&self) -> Dy {
        self.mul(self)
    }
    pub fn powi(&self, n: u32) -> Dy {
        let mut r = Dy::one();
        for _ in 0..n {
            r = r.mul(self);
        }
        r
    }
    fn aligned(a: &Dy, b: &Dy) -> (Mag, Mag, i64) {
        let e = a.exp.min(b.exp);
        let am = if a.exp > e { mag::shl(&a.mag, (a.exp - e) as u64) } else { a.mag.clone() };
        let bm = if b.exp > e { mag::shl(&b.mag, (b.exp - e) as u64) } else { b.mag.clone() };
        (am, bm, e)
    }
    pub fn add(&self, o: &Dy) -> Dy {
        if self.is_zero() {
            return o.clone();
        }
        if o.is_zero() {
            return self.clone();
        }
        let (am, bm, e) = Dy::aligned(self, o);
        if self.neg == o.neg {
            Dy { neg: self.neg, mag: mag::add(&am, &bm), exp: e }.normed()
        } else {
            match mag::cmp(&am, &bm) {
                Ordering::Equal => Dy::zero(),
                Ordering::Greater => Dy { neg: self.neg, mag: mag::sub(&am, &bm), exp: e }.normed(),
                Ordering::Less => Dy { neg: o.neg, mag: mag::sub(&bm, &am), exp: e }.normed(),
            }
        }
    }
    pub fn sub(&self, o: &Dy) -> Dy {
        self.add(&o.neg())
    }
    pub fn cmp_abs(&self, o: &Dy) -> Ordering {
        match (self.is_zero(), o.is_zero()) {
            (true, true) => return Ordering::Equal,
            (true, false) => return Ordering::Less,
            (false, true) => return Ordering::Greater,
            _ => {}
        }
        let (ta, tb) = (self.top(), o.top());
        if ta != tb {
            return ta.cmp(&tb);
        }
        let (am, bm, _) = Dy::aligned(self, o);
        mag::cmp(&am, &bm)
    }
    pub fn cmp(&self, o: &Dy) -> Ordering {
        let (sa, sb) = (self.sign(), o.sign());
        if sa != sb {
            return sa.cmp(&sb);
        }
        if sa == 0 {
            return Ordering::Equal;
        }
        let c = self.cmp_abs(o);
        if sa > 0 {
            c
        } else {
            c.reverse()
        }
    }
    pub fn le(&self, o: &Dy) -> bool {
        self.cmp(o) != Ordering::Greater
    }
    pub fn lt(&self, o: &Dy) -> bool {
        self.cmp(o) == Ordering::Less
    }
    pub fn max(&self, o: &Dy) -> Dy {
        if self.cmp(o) == Ordering::Less {
            o.clone()
        } else {
            self.clone()
        }
    }
    pub fn min(&self, o: &Dy) -> Dy {
        if self.cmp(o) == Ordering::Greater {
            o.clone()
        } else {
            self.clone()
        }
    }
    /// Truncate (toward zero) to at most `p` significant bits.
    pub fn trunc(&self, p: u64) -> Dy {
        let n = mag::bits(&self.mag);
        if n <= p {
            return self.clone();
        }
        let s = n - p;
        Dy { neg: self.neg, mag: mag::shr(&self.mag, s), exp: self.exp + s as i64 }.normed()
    }
    /// Round away from zero to at most `p` significant bits (an upper bound of |self|).
    pub fn round_up_abs(&self, p: u64) -> Dy {
        let n = mag::bits(&self.mag);
        if n <= p {
            return self.clone();
        }
        let s = n - p;
        let inexact = mag::any_below(&self.mag, s);
        let mut m = mag::shr(&self.mag, s);
        if inexact {
            m = mag::add(&m, &vec![1]);
        }
        Dy { neg: self.neg, mag: m, exp: self.exp + s as i64 }.normed()
    }
    /// Nearest f64, ties to even; overflow gives ±inf; handles subnormals.
    pub fn to_f64(&self) -> f64 {
        if self.is_zero() {
            return 0.0;
        }
        let sign = if self.neg { -1.0 } else { 1.0 };
        let top = self.top();
        if top > 1023 {
            return sign * f64::INFINITY;
        }
        // target quantum: 2^q where q = max(top-52, -1074)
        let q = (top - 52).max(-1074);
        // value = mag * 2^exp ; want integer r = round(value / 2^q)
        let r: Mag;
        if self.exp >= q {
            r = mag::shl(&self.mag, (self.exp - q) as u64);
        } else {
            let s = (q - self.exp) as u64;
            let mut t = mag::shr(&self.mag, s);
            let half = mag::bit(&self.mag, s - 1);
            let rest = mag::any_below(&self.mag, s - 1);
            let odd = mag::bit(&t, 0);
            if half && (rest || odd) {
                t = mag::add(&t, &vec![1]);
            }
            r = t;
        }
        // r < 2^54
        let ri = match r.len() {
            0 => 0u64,
            1 => r[0],
            _ => unreachable!("rounded mantissa too long"),
        };
        let v = (ri as f64) * pow2_f64(q);
        sign * v
    }
    /// A short human-readable rendering: the nearest f64 plus exponent info.
    pub fn approx(&self) -> f64 {
        // scaled to avoid overflow in rendering: only used for messages
        if self.is_zero() {
            return 0.0;
        }
        let t = self.top();
        if (-1000..=1000).contains(&t) {
            self.to_f64()
        } else {
            // mantissa in [1,2) times 2^t cannot be shown in f64; saturate
            let s = if self.neg { -1.0 } else { 1.0 };
            if t > 0 {
                s * f64::MAX
            } else {
                s * f64::MIN_POSITIVE
            }
        }
    }
    pub fn show(&self) -> String {
        if self.is_zero() {
            return "0".into();
        }
        let t = self.top();
        // mantissa as f64 in [1,2)
        let m = self.mul_pow2(-t).to_f64();
        format!("{}{:.17}*2^{} (~{:e})", if self.neg { "" } else { "" }, m, t, self.approx())
    }
}

/// exact 2^q as f64 for -1074 <= q <= 1023
pub fn pow2_f64(q: i64) -> f64 {
    assert!((-1074..=1023).contains(&q));
    if q >= -1022 {
        f64::from_bits(((q + 1023) as u64) << 52)
    } else {
        f64::from_bits(1u64 << (q + 1074))
    }
}

pub fn d(x: f64) -> Dy {
    Dy::from_f64(x)
}

// ---------------------------------------------------------------------------
// Rounded big float
// ---------------------------------------------------------------------------

/// Working precision (bits) of `Bf` operations. Results are accurate to better
/// than 2^-300 relative for the operation counts used by the checks.
pub const PREC: u64 = 384;

/// A `Dy` kept at <= PREC bits by truncation after every operation.
#[derive(Clone, Debug)]
pub struct Bf(pub Dy);

impl Bf {
    pub fn zero() -> Bf {
        Bf(Dy::zero())
    }
    pub fn one() -> Bf {
        Bf(Dy::one())
    }
    pub fn from_dy(x: &Dy) -> Bf {
        Bf(x.trunc(PREC))
    }
    pub fn from_f64(x: f64) -> Bf {
        Bf(Dy::from_f64(x))
    }
    pub fn from_i64(x: i64) -> Bf {
        Bf(Dy::from_i64(x))
    }
    pub fn dy(&self) -> &Dy {
        &self.0
    }
    pub fn is_zero(&self) -> bool {
        self.0.is_zero()
    }
    pub fn sign(&self) -> i32 {
        self.0.sign()
    }
    pub fn add(&self, o: &Bf) -> Bf {
        // guard against pointless gigantic alignments
        if !self.is_zero() && !o.is_zero() {
            let (ta, tb) = (self.0.top(), o.0.top());
            if ta > tb + 2 * PREC as i64 + 8 {
                return self.clone();
            }
            if tb > ta + 2 * PREC as i64 + 8 {
                return o.clone();
            }
        }
        Bf(self.0.add(&o.0).trunc(PREC))
    }
    pub fn sub(&self, o: &Bf) -> Bf {
        self.add(&o.neg())
    }
    pub fn mul(&self, o: &Bf) -> Bf {
        Bf(self.0.mul(&o.0).trunc(PREC))
    }
    pub fn mul_i64(&self, k: i64) -> Bf {
        Bf(self.0.mul(&Dy::from_i64(k)).trunc(PREC))
    }
    pub fn div_u64(&self, k: u64) -> Bf {
        assert!(k != 0);
        if self.is_zero() {
            return Bf::zero();
        }
        // scale so that the quotient has >= PREC bits
        let n = mag::bits(&self.0.mag);
        let need = PREC + 64 + 1;
        let s = if n < need { need - n } else { 0 };
        let num = mag::shl(&self.0.mag, s);
        let (q, _) = mag::divrem_small(&num, k);
        Bf(Dy { neg: self.0.neg, mag: q, exp: self.0.exp - s as i64 }.normed().trunc(PREC))
    }
    pub fn div(&self, o: &Bf) -> Bf {
        assert!(!o.is_zero(), "Bf division by zero");
        if self.is_zero() {
            return Bf::zero();
        }
        let na = mag::bits(&self.0.mag);
        let nb = mag::bits(&o.0.mag);
        let need = nb + PREC + 2;
        let s = if na < need { need - na } else { 0 };
        let num = mag::shl(&self.0.mag, s);
        let (q, _) = mag::divrem(&num, &o.0.mag);
        Bf(Dy { neg: self.0.neg != o.0.neg, mag: q, exp: self.0.exp - s as i64 - o.0.exp }
            .normed()
            .trunc(PREC))
    }
    pub fn recip(&self) -> Bf {
        Bf::one().div(self)
    }
    pub fn neg(&self) -> Bf {
        Bf(self.0.neg())
    }
    pub fn abs(&self) -> Bf {
        Bf(self.0.abs())
    }
    pub fn mul_pow2(&self, k: i64) -> Bf {
        Bf(self.0.mul_pow2(k))
    }
    pub fn powi(&self, n: u32) -> Bf {
        let mut r = Bf::one();
        for _ in 0..n {
            r = r.mul(self);
        }
        r
    }
    pub fn cmp(&self, o: &Bf) -> Ordering {
        self.0.cmp(&o.0)
    }
    pub fn to_f64(&self) -> f64 {
        self.0.to_f64()
    }
    pub fn max(&self, o: &Bf) -> Bf {
        if self.cmp(o) == Ordering::Less {
            o.clone()
        } else {
            self.clone()
        }
    }

    /// ln 2 to PREC bits (2·atanh(1/3))
    pub fn ln2() -> &'static Bf {
        static LN2: OnceLock<Bf> = OnceLock::new();
        LN2.get_or_init(|| {
            let third = Bf::one().div_u64(3);
            atanh_series(&third).mul_pow2(1)
        })
    }

    /// Natural logarithm of a positive number.
    pub fn ln(&self) -> Bf {
        assert!(self.sign() > 0, "Bf::ln of non-positive");
        // v = m * 2^k, m in [sqrt(1/2), sqrt(2))
        let t = self.0.top();
        let mut m = self.0.mul_pow2(-t); // in [1,2)
        let mut k = t;
        // m > sqrt2  <=> m^2 > 2
        if m.sq().cmp(&Dy::from_i64(2)) == Ordering::Greater {
            m = m.mul_pow2(-1);
            k += 1;
        }
        // z = (m-1)/(m+1): m-1 is exact (no cancellation error)
        let num = Bf::from_dy(&m.sub(&Dy::one()));
        let den = Bf::from_dy(&m.add(&Dy::one()));
        let lnm = if num.is_zero() { Bf::zero() } else { atanh_series(&num.div(&den)).mul_pow2(1) };
        if k == 0 {
            lnm
        } else {
            Bf::ln2().mul_i64(k).add(&lnm)
        }
    }

    /// Exponential. |self| must be < 2^20 (plenty: f64 exp overflows at 710).
    pub fn exp(&self) -> Bf {
        if self.is_zero() {
            return Bf::one();
        }
        assert!(self.0.top() < 20, "Bf::exp argument too large");
        // k = round(x / ln2) via f64 (only needs to be close)
        let xf = self.to_f64();
        let k = (xf / std::f64::consts::LN_2).round() as i64;
        let r = self.sub(&Bf::ln2().mul_i64(k)); // |r| <~ 0.35
        const S: i64 = 12;
        let rs = r.mul_pow2(-S);
        // Taylor series of exp(rs) - 1  (kept separately to preserve accuracy), then
        // square S times using (1+a)^2 - 1 = 2a + a^2
        let mut term = rs.clone();
        let mut sum = rs.clone();
        let mut n = 1u64;
        loop {
            n += 1;
            term = term.mul(&rs).div_u64(n);
            if term.is_zero() {
                break;
            }
            sum = sum.add(&term);
            if !sum.is_zero() && term.0.top() < sum.0.top() - (PREC as i64) - 8 {
                break;
            }
            if n > 400 {
                break;
            }
        }
        let mut a = sum; // exp(rs)-1
        for _ in 0..S {
            a = a.mul_pow2(1).add(&a.mul(&a));
        }
        Bf::one().add(&a).mul_pow2(k)
    }

    /// exp(x) - 1, accurate also for tiny x.
    pub fn expm1(&self) -> Bf {
        if self.is_zero() {
            return Bf::zero();
        }
        if self.0.top() < -2 {
            // direct series
            let mut term = self.clone();
            let mut sum = self.clone();
            let mut n = 1u64;
            loop {
                n += 1;
                term = term.mul(self).div_u64(n);
                if term.is_zero() {
                    break;
                }
                sum = sum.add(&term);
                if term.0.top() < sum.0.top() - (PREC as i64) - 8 || n > 400 {
                    break;
                }
            }
            sum
        } else {
            self.exp().sub(&Bf::one())
        }
    }
}

/// atanh(z) = z + z^3/3 + z^5/5 + ...  for |z| <= ~0.34
fn atanh_series(z: &Bf) -> Bf {
    if z.is_zero() {
        return Bf::zero();
    }
    let z2 = z.mul(z);
    let mut pow = z.clone();
    let mut sum = z.clone();
    let mut n = 1u64;
    loop {
        n += 2;
        pow = pow.mul(&z2);
        if pow.is_zero() {
            break;
        }
        let term = pow.div_u64(n);
        sum = sum.add(&term);
        if term.is_zero() || term.0.top() < sum.0.top() - (PREC as i64) - 8 {
            break;
        }
        if n > 4000 {
            break;
        }
    }
    sum
}

// ---------------------------------------------------------------------------
// f64 helpers shared by generators and oracles
// ---------------------------------------------------------------------------

pub fn next_up(x: f64) -> f64 {
    if x.is_nan() || x == f64::INFINITY {
        return x;
    }
    if x == 0.0 {
        return f64::from_bits(1);
    }
    let b = x.to_bits();
    if x > 0.0 {
        f64::from_bits(b + 1)
    } else {
        f64::from_bits(b - 1)
    }
}
pub fn next_down(x: f64) -> f64 {
    -next_up(-x)
}
/// unit in the last place of the binade containing |x| (2^-1074 for subnormals / zero)
pub fn ulp(x: f64) -> f64 {
    let a = x.abs();
    if !a.is_finite() {
        return f64::NAN;
    }
    if a < f64::MIN_POSITIVE * 2.0 {
        return f64::from_bits(1);
    }
    let e = ((a.to_bits() >> 52) & 0x7ff) as i64 - 1023;
    pow2_f64((e - 52).max(-1074))
}

/// Self-tests of the numeric oracle; returns a list of failure messages.
pub fn self_test() -> Vec<String> {
    let mut errs = Vec::new();
    macro_rules! chk {
        ($c:expr, $($m:tt)*) => { if !($c) { errs.push(format!($($m)*)); } };
    }
    // a cheap deterministic LCG for self tests only (not used in properties)
    let mut s: u64 = 0x9E37_79B9_7F4A_7C15;
    let mut nextu = move || {
        s = s.wrapping_mul(6364136223846793005).wrapping_add(1442695040888963407);
        s ^ (s >> 29)
    };
    let rndf = |nextu: &mut dyn FnMut() -> u64| -> f64 {
        loop {
            let b = nextu();
            let f = f64::from_bits(b);
            if f.is_finite() {
                return f;
            }
        }
    };
    // round trip f64 -> Dy -> f64, two_sum / two_prod identities
    for i in 0..20000 {
        let a = rndf(&mut nextu);
        let mut b = rndf(&mut nextu);
        if i % 2 == 0 {
            // comparable magnitudes
            b = a * (1.0 + (nextu() % 1000) as f64 / 997.0) * if nextu() % 2 == 0 { -1.0 } else { 1.0 };
            if !b.is_finite() {
                continue;
            }
        }
        chk!(d(a).to_f64().to_bits() == if a == 0.0 { 0 } else { a.to_bits() }, "roundtrip {a:e}");
        let s_exact = d(a).add(&d(b));
        let sf = a + b;
        if sf.is_finite() {
            chk!(s_exact.to_f64() == sf, "add rounding {a:e}+{b:e}: {} vs {sf:e}", s_exact.to_f64());
            // two_sum
            let bb = sf - a;
            let err = (a - (sf - bb)) + (b - bb);
            if err.is_finite() {
                chk!(d(sf).add(&d(err)) == s_exact, "two_sum {a:e} {b:e}");
            }
        }
        let p_exact = d(a).mul(&d(b));
        let pf = a * b;
        if pf.is_finite() {
            chk!(p_exact.to_f64() == pf, "mul rounding {a:e}*{b:e}: {} vs {pf:e}", p_exact.to_f64());
            if pf.abs() > 1e-250 && pf.abs() < 1e250 {
                let err = a.mul_add(b, -pf);
                chk!(d(pf).add(&d(err)) == p_exact, "two_prod {a:e} {b:e}");
            }
        }
        // fma correctly rounded
        let c = rndf(&mut nextu);
        let ff = a.mul_add(b, c);
        if ff.is_finite() && pf.is_finite() {
            let e = p_exact.add(&d(c)).to_f64();
            chk!(e == ff, "fma {a:e} {b:e} {c:e}: {e:e} vs {ff:e}");
        }
        chk!(d(a).cmp(&d(b)) == a.partial_cmp(&b).unwrap(), "cmp {a:e} {b:e}");
    }
    // division
    for _ in 0..2000 {
        let a = rndf(&mut nextu);
        let b = rndf(&mut nextu);
        if b == 0.0 {
            continue;
        }
        let q = a / b;
        if q.is_finite() && (q == 0.0 || q.abs() > 1e-300) {
            let qe = Bf::from_f64(a).div(&Bf::from_f64(b)).to_f64();
            chk!(qe == q || next_up(qe) == q || next_down(qe) == q, "div {a:e}/{b:e}: {qe:e} vs {q:e}");
            // exact check: |q*b - a| <= ulp(q)*|b|/2 (+ tiny)
            let resid = d(q).mul(&d(b)).sub(&d(a)).abs();
            let bound = d(ulp(q)).mul(&d(b).abs()).mul_pow2(-1);
            chk!(resid.le(&bound), "div residual {a:e}/{b:e}");
        }
    }
    // ln / exp against libm (1 ulp) and exp(ln v) = v
    let mut worst = 0.0f64;
    for i in 0..3000 {
        let v = match i % 5 {
            0 => 1.0 + ((nextu() % 4096) as f64 - 2048.0) * f64::EPSILON,
            1 => ((nextu() % 2000) as f64 / 100.0 - 10.0).exp(),
            2 => f64::from_bits((nextu() >> 2) | 1).abs(),
            3 => (nextu() % 100000) as f64 / 1000.0 + 1e-3,
            _ => f64::from_bits(nextu() % (1u64 << 52)), // subnormal
        };
        if !(v > 0.0) || !v.is_finite() {
            continue;
        }
        let l = Bf::from_f64(v).ln();
        let lf = l.to_f64();
        let lm = v.ln();
        let dist = ((lf - lm) / ulp(lm)).abs();
        if dist > worst {
            worst = dist;
        }
        chk!(dist <= 1.0, "ln({v:e}) = {lf:e} vs libm {lm:e}");
        // exp(ln v) == v to ~2^-300
        let back = l.exp();
        let diff = back.sub(&Bf::from_f64(v)).abs();
        let tol = Bf::from_f64(v).mul_pow2(-300);
        chk!(diff.cmp(&tol) != Ordering::Greater, "exp(ln {v:e}) differs: {}", diff.0.show());
    }
    for i in 0..2000 {
        let x = ((nextu() % 1_400_000) as f64 / 1000.0) - 700.0;
        let x = if i % 3 == 0 { x * 1e-3 } else { x };
        let e = Bf::from_f64(x).exp().to_f64();
        let em = x.exp();
        chk!(((e - em) / ulp(em)).abs() <= 1.0, "exp({x:e}) = {e:e} vs libm {em:e}");
        // expm1 consistency
        let e1 = Bf::from_f64(x).expm1();
        let e2 = Bf::from_f64(x).exp().sub(&Bf::one());
        let diff = e1.sub(&e2).abs();
        let tol = e1.abs().max(&Bf::from_dy(&Dy::pow2(-1000))).mul_pow2(-280);
        chk!(diff.cmp(&tol) != Ordering::Greater, "expm1({x:e})");
    }
    // ln2 constant: first 64 bits known
    let ln2 = Bf::ln2().to_f64();
    chk!(ln2 == std::f64::consts::LN_2, "ln2 {ln2:e}");
    // exp(1) digits: e = 2.718281828459045235360287471352662497757...
    let e = Bf::one().exp();
    let e_scaled = e.0.mul(&Dy::from_u64(10u64.pow(18))).trunc(200);
    let e_int = e_scaled.mul_pow2(0).to_f64();
    chk!((e_int - 2.718281828459045235e18).abs() < 1024.0, "e digits {e_int}");
    let _ = worst;
    errs
}

#[cfg(test)]
mod tests {
    use super::*;
    #[test]
    fn selftest_clean() {
        let e = self_test();
        assert!(e.is_empty(), "{:#?}", &e[..e.len().min(10)]);
    }
    #[test]
    fn to_f64_ties_and_subnormals() {
        // 1 + 2^-53 ties to even -> 1
        let v = Dy::one().add(&Dy::pow2(-53));
        assert_eq!(v.to_f64(), 1.0);
        let v = Dy::one().add(&Dy::pow2(-53)).add(&Dy::pow2(-200));
        assert_eq!(v.to_f64(), 1.0 + f64::EPSILON);
        let v = Dy::one().add(&Dy::pow2(-52)).add(&Dy::pow2(-53));
        assert_eq!(v.to_f64(), 1.0 + 2.0 * f64::EPSILON);
        assert_eq!(Dy::pow2(-1074).to_f64(), f64::from_bits(1));
        assert_eq!(Dy::pow2(-1075).to_f64(), 0.0);
        assert_eq!(Dy::pow2(-1075).add(&Dy::pow2(-1100)).to_f64(), f64::from_bits(1));
        assert_eq!(Dy::pow2(1024).to_f64(), f64::INFINITY);
        assert_eq!(d(f64::MAX).to_f64(), f64::MAX);
        assert_eq!(d(-f64::MIN_POSITIVE).to_f64(), -f64::MIN_POSITIVE);
    }
}
