#!/usr/bin/env bash
# builds the libFuzzer targets (nightly toolchain, ASan, sancov) against /repo's current working tree
set -u
ROOT="$(cd "$(dirname "$0")/.." && pwd)"
cd "$ROOT"
mkdir -p work
if CARGO_NET_OFFLINE=true cargo +nightly fuzz build --fuzz-dir fuzz >work/fuzz-build.log 2>&1; then
  exit 0
fi
tail -30 work/fuzz-build.log >&2
exit 1
