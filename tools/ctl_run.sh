#!/usr/bin/env bash
# tools/ctl_run.sh <controls/NAME> [ids...] : run the checks against one PROPERTY-PRESERVING change written by an
# independent sub-agent (negative control). Applies patch.diff to /repo, requires the repository's 94 tests to
# pass, runs the quick tier of every listed check (default: all 19), reverts /repo. Every check must stay silent;
# an alarm is either a false alarm of the check or an accidental defect in the control - to be analysed by hand.
set -u
export VERIF_EVIDENCE_DIR="$(cd "$(dirname "$0")/.." && pwd)/work/evidence-scratch"; mkdir -p "$VERIF_EVIDENCE_DIR"
ROOT="$(cd "$(dirname "$0")/.." && pwd)"
D="$ROOT/${1%/}"; shift
[ -s "$D/patch.diff" ] || { echo "no patch in $D"; exit 2; }
git -C /repo diff --quiet || { echo "/repo has uncommitted changes; refusing"; exit 2; }
trap 'git -C /repo checkout -- . 2>/dev/null' EXIT
git -C /repo apply "$D/patch.diff" || { echo "$(basename "$D"): patch does not apply to /repo"; exit 2; }
tests=$(cd /repo && cargo test --offline 2>&1 | grep -E "^test result" | head -1)
if ! echo "$tests" | grep -q "94 passed; 0 failed"; then echo "$(basename "$D"): repository suite does not pass: $tests"; git -C /repo checkout -- .; exit 2; fi
IDS="$*"; [ -z "$IDS" ] && IDS=$(seq -f "C%02g" 1 19)
cd "$ROOT"
res=""
for p in $IDS; do
  out=$(./check "$p" quick 2>&1); code=$?
  if echo "$out" | grep -q "^VIOLATION"; then r="ALARM"; msg=$(echo "$out" | grep -A1 "^VIOLATION" | sed -n 2p | cut -c1-300); cp replays/$p-* "$D/" 2>/dev/null
  elif [ $code -eq 0 ]; then r="silent"; msg=""; else r="exit=$code"; msg=$(echo "$out" | tail -3 | tr '\n' ' ' | cut -c1-300); fi
  [ "$r" != silent ] && echo "$(basename "$D") $p: $r $msg"
  res="$res $p:$r"
  python3 - "$D/meta.json" "$p" "$r" "$msg" <<'PY'
import json,sys,os
f,p,r,msg=sys.argv[1:5]
m=json.load(open(f)) if os.path.exists(f) else {}
m.setdefault("checks_run",{})[p]={"result":r,"first_violation":msg}
json.dump(m,open(f,"w"),indent=1)
PY
done
git -C /repo checkout -- .
rm -f "$ROOT"/replays/*
echo "$(basename "$D"):$res"
