//! C08 — differentiation yields the exact formal derivative, piece by piece.

use crate::fl::{hex, B};
use crate::gen;
use crate::model::PolyK;
use crate::num::*;
use crate::runner::{Ctx, Outcome, Prop, Tier};
use crate::{dispatch_deg, fail, lib};
use piecewise_polynomial::*;
use ppv_exact::{d, Dy};
use proptest::collection::vec;
use proptest::prelude::*;
use serde::{Deserialize, Serialize};

#[derive(Clone, Debug, Hash, Serialize, Deserialize)]
pub struct Case {
    pub deg: u8,
    /// deg+1 coefficients of the single polynomial; also the pool the pieces rotate through
    pub c: Vec<B>,
    pub x: B,
    /// ends of the piecewise function (may be empty)
    pub ends: Vec<B>,
}

pub struct C08;

fn piece_coeffs(c: &[f64], j: usize) -> Vec<f64> {
    // piece j: rotation of the pool by j (keeps all numbers finite and pieces distinct)
    (0..c.len()).map(|i| c[(i + j) % c.len()]).collect()
}

fn check_k<P>(c: &[f64], x: f64, ends: &[f64], ctx: &mut Ctx) -> Outcome
where
    P: PolyK + HasDerivative,
    P::DerivativeOf: PolyK,
{
    let n = P::DEG;
    let p = P::from_coeffs(c);
    let dp = lib!(p.derivative());
    let dc = dp.coeffs();
    // structure
    let want_len = if n == 0 { 1 } else { n };
    if dc.len() != want_len {
        fail!("derivative of degree {n} has {} coefficients", dc.len());
    }
    if n == 0 {
        ctx.comparisons += 1;
        if dc[0] != 0.0 {
            fail!("derivative of the constant {} is {} (must be the zero constant)", hex(c[0]), hex(dc[0]));
        }
    }
    let mut overflow = false;
    for i in 0..n {
        let k = (i + 1) as u64;
        let exact = d(c[i + 1]).mul_u64(k);
        if exact.to_f64().is_infinite() {
            // (i+1)c overflows under round-to-nearest (this includes exact products between MAX + half an ulp
            // and 2^1024, whose correctly rounded value IS infinity): out of domain for this coefficient
            overflow = true;
            continue;
        }
        ctx.comparisons += 1;
        let got = dc[i];
        if k.is_power_of_two() {
            let want = exact.to_f64();
            if !(got == want) {
                fail!("Poly{n}.derivative(): coefficient {i} is {} but {k}·c[{}] = {k}·{} = {} exactly", hex(got), i + 1, hex(c[i + 1]), hex(want));
            }
        } else if !quotient_within_ulps(got, &exact, &Dy::one(), 1) {
            fail!(
                "Poly{n}.derivative(): coefficient {i} is {} but {k}·c[{}] = {k}·{} = {} (more than one ulp away)",
                hex(got), i + 1, hex(c[i + 1]), hex(exact.to_f64())
            );
        }
    }
    if overflow {
        ctx.label("some (i+1)c overflows (coefficient skipped)");
    }
    // value clause (only inside the C01 domain)
    if n >= 1 && !overflow && x.is_finite() {
        let xd = d(x);
        let mut in_dom = true;
        let mut pw = Dy::one();
        for i in 0..n {
            if i > 0 {
                pw = pw.mul(&xd);
            }
            let term = pw.mul(&d(c[i + 1])).mul_u64(i as u64 + 1);
            // besides every term (i+1)c·x^i and power of x, every derivative COEFFICIENT must be in range: the
            // intermediates of any Horner/Estrin-like scheme are partial sums divided by a power of x and contain
            // the bare coefficient (e.g. d4 + d5·x overflows for d4 = MAX although d4·x^4 is moderate)
            let coef = d(c[i + 1]).mul_u64(i as u64 + 1);
            if !in_range(&pw, 900) || !in_range(&term, 900) || !in_range(&coef, 900) || (c[i + 1] != 0.0 && d(c[i + 1]).top() < -1000) {
                in_dom = false;
            }
        }
        if in_dom {
            // exact p'(x) and majorant
            let mut pe = Dy::zero();
            let mut se = Dy::zero();
            for i in (0..n).rev() {
                let k = i as u64 + 1;
                pe = pe.mul(&xd).add(&d(c[i + 1]).mul_u64(k));
                se = se.mul(&xd.abs()).add(&d(c[i + 1]).abs().mul_u64(k));
            }
            let got = lib!(dp.evaluate(x));
            ctx.comparisons += 1;
            let degd = n - 1;
            let k = if degd == 0 { 0 } else { 4 * (degd as u64 + 2) };
            let bound = u().mul(&se).mul_u64(k + 1);
            if !within(got, &pe, &bound) {
                fail!(
                    "Poly{n}{:?}.derivative().evaluate({}) = {} but p'(x) = {}; error is {:.3e} × the bound {}",
                    c, hex(x), hex(got), pe.show(), ratio(got, &pe, &bound), bound.show()
                );
            }
        } else {
            ctx.label("value clause out of domain");
        }
    }
    // Segment / Piecewise
    let segs: Vec<Segment<P>> = ends.iter().enumerate().map(|(j, &e)| Segment { end: e, poly: P::from_coeffs(&piece_coeffs(c, j)) }).collect();
    for s in &segs {
        let ds = lib!(s.derivative());
        ctx.comparisons += 1;
        // the piece must be THE derivative of that piece by the property's own rule (not necessarily the same bits
        // as the piece-level call: the property does not state that the two routes round identically)
        if ds.end.to_bits() != s.end.to_bits() {
            fail!("Segment::derivative changed the breakpoint: {:?} -> {:?}", s, ds);
        }
        if let Some(m) = deriv_rule(&s.poly.coeffs(), &ds.poly.coeffs()) {
            fail!("Segment::derivative: {:?} -> {:?} is not the derivative of the piece: {m}", s, ds);
        }
    }
    let pw = Piecewise { segments: segs.clone() };
    let dpw = lib!(pw.derivative());
    ctx.comparisons += 1;
    if dpw.segments.len() != segs.len() {
        fail!("Piecewise::derivative returned {} pieces for {} pieces", dpw.segments.len(), segs.len());
    }
    for (j, (s, ds)) in segs.iter().zip(dpw.segments.iter()).enumerate() {
        if ds.end.to_bits() != s.end.to_bits() {
            fail!("Piecewise::derivative: breakpoint #{j} changed from {} to {}", hex(s.end), hex(ds.end));
        }
        if let Some(m) = deriv_rule(&s.poly.coeffs(), &ds.poly.coeffs()) {
            fail!("Piecewise::derivative: piece #{j} is {:?}, which is not the derivative of piece #{j} = {:?}: {m}", ds.poly, s.poly);
        }
    }
    Outcome::Pass
}

/// the coefficient rule of the property for one polynomial: `dc` must have the derivative's length, coefficient i
/// within one ulp of (i+1)·c[i+1] (exact for the factors 1, 2, 4, 8; products that overflow are not judged)
fn deriv_rule(c: &[f64], dc: &[f64]) -> Option<String> {
    let n = c.len() - 1;
    let want_len = if n == 0 { 1 } else { n };
    if dc.len() != want_len {
        return Some(format!("{} coefficients instead of {want_len}", dc.len()));
    }
    if n == 0 {
        return if dc[0] != 0.0 { Some(format!("derivative of a constant is {}", hex(dc[0]))) } else { None };
    }
    for i in 0..n {
        let k = (i + 1) as u64;
        let exact = d(c[i + 1]).mul_u64(k);
        if exact.to_f64().is_infinite() {
            continue;
        }
        let got = dc[i];
        let ok = if k.is_power_of_two() { got == exact.to_f64() } else { quotient_within_ulps(got, &exact, &Dy::one(), 1) };
        if !ok {
            return Some(format!("coefficient {i} is {} but {k}·{} = {}", hex(got), hex(c[i + 1]), hex(exact.to_f64())));
        }
    }
    None
}

impl Prop for C08 {
    type Case = Case;
    fn id(&self) -> &'static str {
        "C08"
    }
    fn rule(&self) -> String {
        "case = (degree 0..=8 uniform, coefficient vector over every finite class (full exponent range, ±0, subnormals, ±MAX, negative, fractional), evaluation point, 0..=12 breakpoints from the lattice generator (duplicates, ±inf, ±0; 1 in 10 up to 40; 1 in 8 in arbitrary, unsorted order; 1 case in 9 has a constant coefficient vector, i.e. identical pieces); piece j of the piecewise function uses the coefficient vector rotated by j). Oracle: coefficient i of derivative() within one ulp of the exact (i+1)·c_(i+1) and bit-exact for factors 1,2,4,8 (products that overflow are skipped and labelled); Poly0 -> 0; derivative().evaluate(x) within the C01 bound (+1u for the coefficient rounding) of the exact p'(x) when all terms lie within 2^±900; Segment/Piecewise derivative: same count, same order, every end bit-identical, every piece the derivative of the corresponding piece by the same coefficient rule. Non-trivial: (degree>=2 and some coefficient negative or non-integer) or >=2 pieces.".into()
    }
    fn cases(&self, tier: Tier) -> u64 {
        tier.pick(1_000_000, 15_000_000)
    }
    fn strategy(&self, _tier: Tier) -> BoxedStrategy<Case> {
        let cs = prop_oneof![4 => vec(gen::any_finite(), 9), 2 => gen::coeffs(9, 100), 2 => gen::distinct_numbers(9), 1 => gen::any_finite().prop_map(|c| vec![c; 9])];
        let xs = prop_oneof![3 => gen::moderate(40), 1 => gen::any_finite()];
        // breakpoints: usually a well-formed (sorted) list; 1 in 8 in arbitrary order - differentiation must keep
        // number, order and every breakpoint of ANY list of pieces
        let ends = prop_oneof![
            1 => Just(Vec::new()),
            6 => gen::ends_long(12, 40, false),
            1 => (gen::ends(12, false), any::<u64>()).prop_map(|(mut e, r)| { let n = e.len(); for i in 0..n { e.swap(i, ((r >> (i % 48)) as usize + i * 7) % n); } e }),
        ];
        (0u8..9, cs, xs, ends)
            .prop_map(|(deg, c, x, ends)| Case { deg, c: c[..deg as usize + 1].iter().map(|&v| B(v)).collect(), x: B(x), ends: ends.into_iter().map(B).collect() })
            .boxed()
    }
    fn check(&self, case: &Case, ctx: &mut Ctx) -> Outcome {
        let deg = case.deg % 9;
        let c: Vec<f64> = case.c.iter().map(|b| b.0).collect();
        let ends: Vec<f64> = case.ends.iter().map(|b| b.0).collect();
        if c.len() != deg as usize + 1 || c.iter().any(|v| !v.is_finite()) || ends.iter().any(|e| e.is_nan()) {
            return Outcome::Skip("malformed case");
        }
        ctx.label(["deg0", "deg1", "deg2", "deg3", "deg4", "deg5", "deg6", "deg7", "deg8"][deg as usize]);
        ctx.label(match ends.len() {
            0 => "pieces:0",
            1 => "pieces:1",
            _ => "pieces:>=2",
        });
        ctx.nontrivial = (deg >= 2 && c.iter().any(|v| *v < 0.0 || v.fract() != 0.0)) || ends.len() >= 2;
        dispatch_deg!(deg, check_k(&c, case.x.0, &ends, ctx))
    }
    fn size(&self, c: &Case) -> usize {
        c.ends.len() * 10 + c.c.len()
    }
}
