//! Unsigned magnitudes: little-endian `Vec<u64>`, normalized (no high zero
//! limbs; zero is the empty vector). Small, simple, schoolbook.

use std::cmp::Ordering;

pub type Mag = Vec<u64>;

#[inline]
pub fn norm(a: &mut Mag) {
    while let Some(&0) = a.last() {
        a.pop();
    }
}

pub fn from_u64(x: u64) -> Mag {
    if x == 0 {
        Vec::new()
    } else {
        vec![x]
    }
}

pub fn from_u128(x: u128) -> Mag {
    let mut v = vec![x as u64, (x >> 64) as u64];
    norm(&mut v);
    v
}

/// Number of significant bits (0 for zero).
pub fn bits(a: &Mag) -> u64 {
    match a.last() {
        None => 0,
        Some(&hi) => (a.len() as u64) * 64 - hi.leading_zeros() as u64,
    }
}

pub fn trailing_zeros(a: &Mag) -> u64 {
    let mut n = 0u64;
    for &l in a {
        if l == 0 {
            n += 64;
        } else {
            return n + l.trailing_zeros() as u64;
        }
    }
    0
}

pub fn bit(a: &Mag, i: u64) -> bool {
    let limb = (i / 64) as usize;
    if limb >= a.len() {
        return false;
    }
    (a[limb] >> (i % 64)) & 1 == 1
}

/// true iff any bit strictly below position `i` is set
pub fn any_below(a: &Mag, i: u64) -> bool {
    let limb = (i / 64) as usize;
    for (k, &l) in a.iter().enumerate() {
        if k < limb {
            if l != 0 {
                return true;
            }
        } else if k == limb {
            let r = i % 64;
            if r > 0 && (l & ((1u64 << r) - 1)) != 0 {
                return true;
            }
            return false;
        } else {
            return false;
        }
    }
    false
}

pub fn cmp(a: &Mag, b: &Mag) -> Ordering {
    if a.len() != b.len() {
        return a.len().cmp(&b.len());
    }
    for i in (0..a.len()).rev() {
        if a[i] != b[i] {
            return a[i].cmp(&b[i]);
        }
    }
    Ordering::Equal
}

pub fn add(a: &Mag, b: &Mag) -> Mag {
    let (a, b) = if a.len() >= b.len() { (a, b) } else { (b, a) };
    let mut r = Vec::with_capacity(a.len() + 1);
    let mut carry = 0u64;
    for i in 0..a.len() {
        let bi = if i < b.len() { b[i] } else { 0 };
        let (s1, c1) = a[i].overflowing_add(bi);
        let (s2, c2) = s1.overflowing_add(carry);
        r.push(s2);
        carry = (c1 as u64) + (c2 as u64);
    }
    if carry != 0 {
        r.push(carry);
    }
    r
}

/// a - b, requires a >= b
pub fn sub(a: &Mag, b: &Mag) -> Mag {
    debug_assert!(cmp(a, b) != Ordering::Less);
    let mut r = Vec::with_capacity(a.len());
    let mut borrow = 0u64;
    for i in 0..a.len() {
        let bi = if i < b.len() { b[i] } else { 0 };
        let (s1, c1) = a[i].overflowing_sub(bi);
        let (s2, c2) = s1.overflowing_sub(borrow);
        r.push(s2);
        borrow = (c1 as u64) + (c2 as u64);
    }
    assert_eq!(borrow, 0, "mag::sub underflow");
    norm(&mut r);
    r
}

pub fn mul(a: &Mag, b: &Mag) -> Mag {
    if a.is_empty() || b.is_empty() {
        return Vec::new();
    }
    let mut r = vec![0u64; a.len() + b.len()];
    for i in 0..a.len() {
        let mut carry = 0u128;
        let ai = a[i] as u128;
        if ai == 0 {
            continue;
        }
        for j in 0..b.len() {
            let t = ai * (b[j] as u128) + (r[i + j] as u128) + carry;
            r[i + j] = t as u64;
            carry = t >> 64;
        }
        let mut k = i + b.len();
        while carry != 0 {
            let t = (r[k] as u128) + carry;
            r[k] = t as u64;
            carry = t >> 64;
            k += 1;
        }
    }
    norm(&mut r);
    r
}

pub fn mul_small(a: &Mag, m: u64) -> Mag {
    if a.is_empty() || m == 0 {
        return Vec::new();
    }
    let mut r = Vec::with_capacity(a.len() + 1);
    let mut carry = 0u128;
    for &l in a {
        let t = (l as u128) * (m as u128) + carry;
        r.push(t as u64);
        carry = t >> 64;
    }
    if carry != 0 {
        r.push(carry as u64);
    }
    r
}

/// (a / d, a % d) for a small divisor
pub fn divrem_small(a: &Mag, d: u64) -> (Mag, u64) {
    assert!(d != 0);
    let mut q = vec![0u64; a.len()];
    let mut rem = 0u128;
    for i in (0..a.len()).rev() {
        let cur = (rem << 64) | (a[i] as u128);
        q[i] = (cur / (d as u128)) as u64;
        rem = cur % (d as u128);
    }
    norm(&mut q);
    (q, rem as u64)
}

pub fn shl(a: &Mag, n: u64) -> Mag {
    if a.is_empty() {
        return Vec::new();
    }
    let limbs = (n / 64) as usize;
    let r = (n % 64) as u32;
    let mut out = vec![0u64; limbs];
    if r == 0 {
        out.extend_from_slice(a);
    } else {
        let mut carry = 0u64;
        for &l in a {
            out.push((l << r) | carry);
            carry = l >> (64 - r);
        }
        if carry != 0 {
            out.push(carry);
        }
    }
    out
}

/// truncating right shift
pub fn shr(a: &Mag, n: u64) -> Mag {
    let limbs = (n / 64) as usize;
    if limbs >= a.len() {
        return Vec::new();
    }
    let r = (n % 64) as u32;
    let mut out = Vec::with_capacity(a.len() - limbs);
    if r == 0 {
        out.extend_from_slice(&a[limbs..]);
    } else {
        for i in limbs..a.len() {
            let lo = a[i] >> r;
            let hi = if i + 1 < a.len() { a[i + 1] << (64 - r) } else { 0 };
            out.push(lo | hi);
        }
    }
    norm(&mut out);
    out
}

/// Binary long division: (a / b, a % b). b != 0.
pub fn divrem(a: &Mag, b: &Mag) -> (Mag, Mag) {
    assert!(!b.is_empty(), "division by zero");
    if b.len() == 1 {
        let (q, r) = divrem_small(a, b[0]);
        return (q, from_u64(r));
    }
    if cmp(a, b) == Ordering::Less {
        return (Vec::new(), a.clone());
    }
    let na = bits(a);
    let nb = bits(b);
    let mut shift = na - nb;
    let mut d = shl(b, shift);
    let mut rem = a.clone();
    let mut q = vec![0u64; (shift / 64 + 1) as usize];
    loop {
        if cmp(&rem, &d) != Ordering::Less {
            rem = sub(&rem, &d);
            q[(shift / 64) as usize] |= 1u64 << (shift % 64);
        }
        if shift == 0 {
            break;
        }
        shift -= 1;
        d = shr(&d, 1);
    }
    norm(&mut q);
    (q, rem)
}

#[cfg(test)]
mod tests {
    use super::*;

    fn m(x: u128) -> Mag {
        from_u128(x)
    }
    fn to_u128(a: &Mag) -> u128 {
        assert!(a.len() <= 2);
        let lo = *a.first().unwrap_or(&0) as u128;
        let hi = *a.get(1).unwrap_or(&0) as u128;
        lo | (hi << 64)
    }

    #[test]
    fn small_cross_checks() {
        let vals: [u128; 9] = [
            0,
            1,
            2,
            u64::MAX as u128,
            (u64::MAX as u128) + 1,
            0x1234_5678_9abc_def0_1122_3344,
            1u128 << 100,
            (1u128 << 100) - 1,
            0xffff_ffff_ffff_ffff_ffff_ffff_ffff,
        ];
        for &a in &vals {
            for &b in &vals {
                if let Some(s) = a.checked_add(b) {
                    assert_eq!(to_u128(&add(&m(a), &m(b))), s);
                }
                if a >= b {
                    assert_eq!(to_u128(&sub(&m(a), &m(b))), a - b);
                }
                if let Some(p) = a.checked_mul(b) {
                    assert_eq!(to_u128(&mul(&m(a), &m(b))), p);
                }
                if b != 0 {
                    let (q, r) = divrem(&m(a), &m(b));
                    assert_eq!(to_u128(&q), a / b);
                    assert_eq!(to_u128(&r), a % b);
                }
                assert_eq!(cmp(&m(a), &m(b)), a.cmp(&b));
            }
            for s in [0u64, 1, 7, 63, 64, 65] {
                assert_eq!(shr(&shl(&m(a), s), s), m(a));
                if a.leading_zeros() as u64 >= s {
                    assert_eq!(to_u128(&shl(&m(a), s)), a << s);
                }
                assert_eq!(to_u128(&shr(&m(a), s)), a >> s);
            }
            assert_eq!(bits(&m(a)), (128 - a.leading_zeros()) as u64);
        }
    }

    #[test]
    fn big_division_identity() {
        // (a*b + r) / b == a, rem r  for multi-limb operands
        let a = vec![0x1234_5678_9abc_def0, 0xdead_beef_cafe_babe, 0x0fed_cba9_8765_4321, 7];
        let b = vec![0xffff_0000_ffff_0001, 0x8000_0000_0000_0001, 3];
        let r = vec![5, 1];
        let n = add(&mul(&a, &b), &r);
        let (q, rr) = divrem(&n, &b);
        assert_eq!(q, a);
        assert_eq!(rr, r);
    }
}
