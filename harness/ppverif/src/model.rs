//! Reference semantics written independently of the library, plus uniform
//! access to the library's nine hand-unrolled polynomial types.

use piecewise_polynomial::*;

/// The property's own words: index of the first segment whose end is strictly
/// greater than x, else the last index. Plain linear scan.
pub fn select(ends: &[f64], x: f64) -> usize {
    assert!(!ends.is_empty());
    for (i, &e) in ends.iter().enumerate() {
        if e > x {
            return i;
        }
    }
    ends.len() - 1
}

/// Second formulation used to cross-check `select` in the self-test
/// (valid for non-decreasing NaN-free ends and non-NaN x).
pub fn select_pp(ends: &[f64], x: f64) -> usize {
    let k = ends.partition_point(|&e| e <= x);
    k.min(ends.len() - 1)
}

/// Uniform view of Poly0..Poly8
pub trait PolyK: Copy + Clone + std::fmt::Debug + PartialEq + Evaluate + Send + Sync + 'static {
    const DEG: usize;
    fn from_coeffs(c: &[f64]) -> Self;
    fn coeffs(&self) -> Vec<f64>;
}
impl PolyK for Poly0 {
    const DEG: usize = 0;
    fn from_coeffs(c: &[f64]) -> Self {
        Poly0(c[0])
    }
    fn coeffs(&self) -> Vec<f64> {
        vec![self.0]
    }
}
macro_rules! polyk {
    ($t:ident, $d:expr) => {
        impl PolyK for $t {
            const DEG: usize = $d;
            fn from_coeffs(c: &[f64]) -> Self {
                let mut a = [0.0f64; $d + 1];
                a.copy_from_slice(&c[..$d + 1]);
                $t(a)
            }
            fn coeffs(&self) -> Vec<f64> {
                self.0.to_vec()
            }
        }
    };
}
polyk!(Poly1, 1);
polyk!(Poly2, 2);
polyk!(Poly3, 3);
polyk!(Poly4, 4);
polyk!(Poly5, 5);
polyk!(Poly6, 6);
polyk!(Poly7, 7);
polyk!(Poly8, 8);

/// `dispatch_deg!(deg, f(args...))` calls `f::<PolyDEG>(args...)`
#[macro_export]
macro_rules! dispatch_deg {
    ($deg:expr, $f:ident ( $($a:expr),* )) => {
        match $deg {
            0 => $f::<piecewise_polynomial::Poly0>($($a),*),
            1 => $f::<piecewise_polynomial::Poly1>($($a),*),
            2 => $f::<piecewise_polynomial::Poly2>($($a),*),
            3 => $f::<piecewise_polynomial::Poly3>($($a),*),
            4 => $f::<piecewise_polynomial::Poly4>($($a),*),
            5 => $f::<piecewise_polynomial::Poly5>($($a),*),
            6 => $f::<piecewise_polynomial::Poly6>($($a),*),
            7 => $f::<piecewise_polynomial::Poly7>($($a),*),
            8 => $f::<piecewise_polynomial::Poly8>($($a),*),
            d => panic!("bad degree {d}"),
        }
    };
}
/// degrees 0..=7 only (types implementing HasIntegral)
#[macro_export]
macro_rules! dispatch_deg7 {
    ($deg:expr, $f:ident ( $($a:expr),* )) => {
        match $deg {
            0 => $f::<piecewise_polynomial::Poly0>($($a),*),
            1 => $f::<piecewise_polynomial::Poly1>($($a),*),
            2 => $f::<piecewise_polynomial::Poly2>($($a),*),
            3 => $f::<piecewise_polynomial::Poly3>($($a),*),
            4 => $f::<piecewise_polynomial::Poly4>($($a),*),
            5 => $f::<piecewise_polynomial::Poly5>($($a),*),
            6 => $f::<piecewise_polynomial::Poly6>($($a),*),
            7 => $f::<piecewise_polynomial::Poly7>($($a),*),
            d => panic!("bad degree {d}"),
        }
    };
}

/// The list of numbers a value consists of, by direct field access
/// (independent of the approx / serde impls).
pub trait Flat {
    fn flat(&self) -> Vec<f64>;
}
impl Flat for Knot {
    fn flat(&self) -> Vec<f64> {
        vec![self.x, self.y]
    }
}
impl Flat for PolyN {
    fn flat(&self) -> Vec<f64> {
        self.0.clone()
    }
}
impl Flat for Poly0 {
    fn flat(&self) -> Vec<f64> {
        vec![self.0]
    }
}
macro_rules! flat_arr {
    ($($t:ident),*) => { $( impl Flat for $t { fn flat(&self) -> Vec<f64> { self.0.to_vec() } } )* };
}
flat_arr!(Poly1, Poly2, Poly3, Poly4, Poly5, Poly6, Poly7, Poly8);
impl<T: Flat> Flat for Log<T> {
    fn flat(&self) -> Vec<f64> {
        self.0.flat()
    }
}
impl<T: Flat> Flat for IntOfLog<T> {
    fn flat(&self) -> Vec<f64> {
        let mut v = vec![self.k];
        v.extend(self.poly.flat());
        v
    }
}
impl Flat for IntOfLogPoly4 {
    fn flat(&self) -> Vec<f64> {
        let mut v = vec![self.k];
        v.extend_from_slice(&self.coeffs);
        v.push(self.u);
        v
    }
}
impl<T: Flat> Flat for Segment<T> {
    fn flat(&self) -> Vec<f64> {
        let mut v = vec![self.end];
        v.extend(self.poly.flat());
        v
    }
}
impl<T: Flat> Flat for Piecewise<T> {
    fn flat(&self) -> Vec<f64> {
        self.segments.iter().flat_map(|s| s.flat()).collect()
    }
}

pub fn bits_eq(a: &[f64], b: &[f64]) -> bool {
    a.len() == b.len() && a.iter().zip(b).all(|(x, y)| x.to_bits() == y.to_bits())
}

/// Build a quartic log-integral piece from 6 numbers
pub fn q4(v: &[f64]) -> IntOfLogPoly4 {
    IntOfLogPoly4 { k: v[0], coeffs: [v[1], v[2], v[3], v[4]], u: v[5] }
}

pub fn model_self_test() -> Vec<String> {
    let mut errs = Vec::new();
    let lists: Vec<Vec<f64>> = vec![
        vec![1.0],
        vec![1.0, 1.0],
        vec![-0.0, 0.0, 0.0, 2.0],
        vec![f64::NEG_INFINITY, -1.0, 3.0, 3.0, f64::INFINITY],
        vec![1.0, ppv_exact::next_up(1.0), 2.0],
    ];
    for l in &lists {
        for x in crate::gen::alphabet(l, &[0.3, 2.5, -7.0], false) {
            if select(l, x) != select_pp(l, x) {
                errs.push(format!("select disagreement on {l:?} at {x:e}"));
            }
        }
    }
    errs
}

/// Uniform construction of every piece type from a flat list of numbers
/// (the inverse of `Flat::flat`).
pub trait Nums: Sized + Clone + std::fmt::Debug + PartialEq + Flat + Send + Sync + 'static {
    const N: usize;
    fn from_nums(v: &[f64]) -> Self;
    fn type_name() -> String;
}
macro_rules! nums_poly {
    ($($t:ident),*) => { $(
        impl Nums for $t {
            const N: usize = <$t as PolyK>::DEG + 1;
            fn from_nums(v: &[f64]) -> Self { <$t as PolyK>::from_coeffs(v) }
            fn type_name() -> String { stringify!($t).to_string() }
        }
    )* };
}
nums_poly!(Poly0, Poly1, Poly2, Poly3, Poly4, Poly5, Poly6, Poly7, Poly8);
impl<T: Nums> Nums for Log<T> {
    const N: usize = T::N;
    fn from_nums(v: &[f64]) -> Self {
        Log(T::from_nums(v))
    }
    fn type_name() -> String {
        format!("Log<{}>", T::type_name())
    }
}
impl<T: Nums> Nums for IntOfLog<T> {
    const N: usize = T::N + 1;
    fn from_nums(v: &[f64]) -> Self {
        IntOfLog { k: v[0], poly: T::from_nums(&v[1..]) }
    }
    fn type_name() -> String {
        format!("IntOfLog<{}>", T::type_name())
    }
}
impl Nums for IntOfLogPoly4 {
    const N: usize = 6;
    fn from_nums(v: &[f64]) -> Self {
        q4(v)
    }
    fn type_name() -> String {
        "IntOfLogPoly4".to_string()
    }
}
impl<T: Nums> Nums for Segment<T> {
    const N: usize = T::N + 1;
    fn from_nums(v: &[f64]) -> Self {
        Segment { end: v[0], poly: T::from_nums(&v[1..]) }
    }
    fn type_name() -> String {
        format!("Segment<{}>", T::type_name())
    }
}

/// Build a piecewise function: piece j takes `T::N` numbers from `pool`, rotated by j.
pub fn build_pw<T: Nums>(ends: &[f64], pool: &[f64]) -> Piecewise<T> {
    Piecewise {
        segments: ends
            .iter()
            .enumerate()
            .map(|(j, &e)| {
                let v: Vec<f64> = (0..T::N).map(|i| pool[(i + j * 3) % pool.len()]).collect();
                Segment { end: e, poly: T::from_nums(&v) }
            })
            .collect(),
    }
}

/// value equality of two result numbers: identical bits, or both zero (the sign
/// of a zero result is not pinned), or both NaN.
pub fn num_eq(a: f64, b: f64) -> bool {
    a.to_bits() == b.to_bits() || (a == 0.0 && b == 0.0) || (a.is_nan() && b.is_nan())
}
pub fn nums_eq(a: &[f64], b: &[f64]) -> bool {
    a.len() == b.len() && a.iter().zip(b).all(|(x, y)| num_eq(*x, *y))
}
