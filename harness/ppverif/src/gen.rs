//! proptest strategies. Everything is built from integer / bool strategies by
//! `prop_map`, so proptest's integrated shrinking works and shrinks towards
//! small lengths, small exponents and "round" mantissas. Index → value
//! mappings are monotone (`idx`), never `%`.

use crate::runner::idx;
use ppv_exact::{next_down, next_up, pow2_f64};
use proptest::collection::vec;
use proptest::prelude::*;

/// ±(1.m)·2^e from (sign, exponent, mantissa class, raw bits)
pub fn compose(neg: bool, e: i32, mclass: u8, raw: u64) -> f64 {
    let mant: u64 = match mclass % 4 {
        0 => 0,                                   // power of two
        1 => (raw & 0x7) << 49,                   // 3 leading bits
        2 => (raw & 0xfff) << 40,                 // 12 leading bits
        _ => raw & ((1u64 << 52) - 1),            // full mantissa
    };
    let e = e.clamp(-1074, 1023) as i64;
    let v = if e >= -1022 {
        f64::from_bits((((e + 1023) as u64) << 52) | mant)
    } else {
        // subnormal: leading bit at 2^e, keep the top mantissa bits that fit
        let lead = pow2_f64(e);
        let keep = (e + 1074) as u32; // number of fraction bits available
        let frac = if keep == 0 { 0 } else { mant >> (52 - keep.min(52)) };
        f64::from_bits(lead.to_bits() | frac)
    };
    if neg {
        -v
    } else {
        v
    }
}

/// finite, non-zero, |x| in [2^emin, 2^(emax+1)), either sign
pub fn scaled(emin: i32, emax: i32) -> impl Strategy<Value = f64> {
    (emin..=emax, any::<bool>(), 0u8..4, any::<u64>()).prop_map(|(e, neg, mc, raw)| compose(neg, e, mc, raw))
}
/// same, positive only
pub fn scaled_pos(emin: i32, emax: i32) -> impl Strategy<Value = f64> {
    (emin..=emax, 0u8..4, any::<u64>()).prop_map(|(e, mc, raw)| compose(false, e, mc, raw))
}

pub fn from_table(t: &'static [f64]) -> impl Strategy<Value = f64> {
    (0..t.len()).prop_map(move |i| t[i])
}

pub static SMALL_SPECIALS: &[f64] = &[
    0.0, 1.0, -1.0, 2.0, -2.0, 0.5, -0.5, 3.0, -3.0, 7.0, 17.0, -17.0, 10.0, 0.1, -0.1, 1.5, 0.75, -0.0, 100.0, 1e-3,
];

/// every finite f64 class incl. ±0, subnormals, ±MAX
pub fn any_finite() -> BoxedStrategy<f64> {
    prop_oneof![
        4 => scaled(-8, 8),
        2 => from_table(SMALL_SPECIALS),
        2 => scaled(-60, 60),
        1 => scaled(-1022, 1023),
        1 => scaled(-1074, -1023),
        1 => from_table(&[f64::MAX / 7.0, -f64::MAX / 7.0, f64::MAX / 7.0 * 0.9999, f64::MAX / 3.0, f64::MAX / 5.0, f64::MAX / 6.0, -f64::MAX / 6.0, f64::MAX / 2.0, 3.3e307, 2.4e307, -2.3e307, 4.0e307, 8.9e307]),
        1 => from_table(&[f64::MAX, -f64::MAX, f64::MIN_POSITIVE, -f64::MIN_POSITIVE, 5e-324, -5e-324, 0.0, -0.0,
                          f64::EPSILON, 1.0 + f64::EPSILON, 1.0 - f64::EPSILON / 2.0, 9007199254740992.0, 9007199254740993.0e0]),
    ]
    .boxed()
}

/// non-NaN incl. infinities
pub fn any_non_nan() -> BoxedStrategy<f64> {
    prop_oneof![
        12 => any_finite(),
        1 => from_table(&[f64::INFINITY, f64::NEG_INFINITY]),
    ]
    .boxed()
}

pub static NANS: &[u64] = &[
    0x7ff8_0000_0000_0000, // canonical quiet NaN
    0xfff8_0000_0000_0000, // negative quiet NaN
    0x7ff0_0000_0000_0001, // signalling NaN
    0x7fff_ffff_ffff_ffff, // all-ones payload
    0xfff4_0000_dead_beef,
];
pub fn any_nan() -> impl Strategy<Value = f64> {
    (0..NANS.len()).prop_map(|i| f64::from_bits(NANS[i]))
}

/// "moderate" finite values: exponents in [-emax, emax] plus the special table and exact zero
pub fn moderate(emax: i32) -> BoxedStrategy<f64> {
    prop_oneof![
        5 => scaled(-4, 6),
        3 => from_table(SMALL_SPECIALS),
        3 => scaled(-emax, emax),
        1 => (-20i32..=20).prop_map(|i| i as f64),
    ]
    .boxed()
}

/// k-th float neighbour (k may be negative)
pub fn nudge(x: f64, k: i32) -> f64 {
    let mut v = x;
    if k >= 0 {
        for _ in 0..k {
            v = next_up(v);
        }
    } else {
        for _ in 0..(-k) {
            v = next_down(v);
        }
    }
    v
}
/// fast version by bit arithmetic for large k (finite non-zero x of fixed sign region)
pub fn nudge_bits(x: f64, k: i64) -> f64 {
    if x == 0.0 || !x.is_finite() {
        return nudge(x, k.clamp(-8, 8) as i32);
    }
    let b = x.to_bits() as i64; // sign bit set => negative as i64, fine for same-sign steps
    if x > 0.0 {
        let nb = b + k;
        if nb <= 0 || nb >= 0x7ff0_0000_0000_0000 {
            return x;
        }
        f64::from_bits(nb as u64)
    } else {
        let m = (x.to_bits() & !(1u64 << 63)) as i64;
        let nm = m - k;
        if nm <= 0 || nm >= 0x7ff0_0000_0000_0000 {
            return x;
        }
        -f64::from_bits(nm as u64)
    }
}

// ---------------------------------------------------------------------------
// Segment-end lists (§3.4 of DESIGN.md)
// ---------------------------------------------------------------------------

pub fn ends_lattice(kind: u8, custom: &[f64], positive: bool) -> Vec<f64> {
    let one_up = next_up(1.0);
    let one_dn = next_down(1.0);
    let mut l: Vec<f64> = if positive {
        match kind % 6 {
            0 => vec![0.05, 0.5, one_dn, 1.0, one_up, 2.0, std::f64::consts::E, 3.0, 10.0, 20.0],
            1 => vec![0.25, 0.5, 0.75, 1.0, 1.25, 1.5, 2.0, 4.0],
            2 => vec![0.79, 0.9, 0.99, 1.0, 1.01, 1.1, 1.2, next_up(1.2)],
            // long grids: inexact regular step 0.1·k, and integers
            3 => (1..=64).map(|k| 0.1 * k as f64).collect(),
            4 => (1..=20).map(|k| k as f64).collect(),
            _ => custom.iter().map(|x| x.abs().clamp(0.05, 20.0)).collect(),
        }
    } else {
        match kind % 10 {
            0 => vec![-2.0, -1.0, -0.0, 0.0, 5e-324, 1.0, one_up, 2.0, 3.0, 1e300],
            1 => vec![f64::NEG_INFINITY, -f64::MAX, -1.0, 0.0, 1.0, next_up(1.0), f64::MAX, f64::INFINITY],
            2 => vec![1.0, 2.0, 3.0, 4.0, 5.0, 6.0, 7.0, 8.0],
            3 => vec![-3.5, next_down(-1.0), -1.0, next_up(-1.0), -5e-324, -0.0, 0.0, f64::MIN_POSITIVE, 0.5, 2.5],
            // long grids (many distinct ends): integers, and an inexact regular step (0.1·k, a + 0.07·k)
            4 => (-32..=32).map(|k| k as f64).collect(),
            5 => (0..=64).map(|k| 0.1 * k as f64).collect(),
            6 => (0..=64).map(|k| -1.3 + 0.07 * k as f64).collect(),
            7 => {
                // EXACTLY evenly spaced grids k·w with spacings whose reciprocal is inexact (index = (x-x0)*(1/w) slips)
                let ws = [3.0, 7.0, 49.0, 98.0, 103.0, 107.0, 10.0, 100.0, 365.0, 1000.0, 0.25, 1e6];
                let w = ws[(custom.first().map_or(0, |c| c.to_bits() >> 7) % ws.len() as u64) as usize];
                (0..=64).map(|k| k as f64 * w).collect()
            }
            8 => vec![-f64::MAX, -1.5e308, -1.25e308, -1e308, -9e307, 9e307, 1e308, 1.25e308, 1.5e308, f64::MAX],
            _ => custom.to_vec(),
        }
    };
    l.retain(|x| !x.is_nan());
    if l.is_empty() {
        l.push(1.0);
    }
    l.sort_by(|a, b| a.partial_cmp(b).unwrap());
    l
}

/// Non-empty, non-decreasing, NaN-free list of ends with 1..=max_len entries:
/// a sorted multiset drawn from a small lattice, so duplicates, zero-width
/// segments and ends one ulp apart are common.
pub fn ends(max_len: usize, positive: bool) -> BoxedStrategy<Vec<f64>> {
    let custom_elem = if positive { scaled_pos(-4, 4).boxed() } else { any_non_nan() };
    (0u8..20, vec(custom_elem, 1..8), vec(any::<u16>(), 1..=max_len), 0u8..8, any::<u16>())
        .prop_map(move |(kind, custom, picks, mode, start)| {
            let l = ends_lattice(kind, &custom, positive);
            let mut e: Vec<f64> = if mode == 0 {
                // a run of consecutive lattice points (regular grids, no duplicates)
                let n = picks.len().min(l.len());
                let s0 = idx(start, l.len() - n + 1);
                l[s0..s0 + n].to_vec()
            } else {
                picks.iter().map(|&p| l[idx(p, l.len())]).collect()
            };
            // `sort_by(partial_cmp)` is stable: among ties (e.g. -0.0 / 0.0) the generated order is kept
            e.sort_by(|a, b| a.partial_cmp(b).unwrap());
            e
        })
        .boxed()
}

/// as `ends`, but one case in ten is a LONG list (up to `long_len` segments): implementations that
/// switch algorithm with the size of the function (bisection above N segments, inline buffers, ...)
/// are only reached this way.
pub fn ends_long(max_len: usize, long_len: usize, positive: bool) -> BoxedStrategy<Vec<f64>> {
    // 1 case in 40: a length that is exactly a power of two or next to one (block-wise loops with remainder
    // handling, windows of 64 / 128 / 256 elements)
    let exact = (0usize..9, ends(520, positive)).prop_map(|(k, mut e)| {
        let want = [63usize, 64, 65, 128, 129, 255, 256, 257, 512][k];
        let base = e.clone();
        while e.len() < want {
            e.extend_from_slice(&base);
        }
        e.truncate(want);
        e.sort_by(|a, b| a.partial_cmp(b).unwrap());
        e
    });
    prop_oneof![36 => ends(max_len, positive), 3 => ends(long_len, positive), 1 => exact].boxed()
}

/// Query alphabet of a list of ends (optionally of two lists): every end,
/// next_up/next_down of every end, midpoints of consecutive distinct ends,
/// points beyond both extremes, ±inf, ±MAX, ±0.0.
pub fn alphabet(ends: &[f64], extra: &[f64], with_nan: bool) -> Vec<f64> {
    let mut a: Vec<f64> = Vec::new();
    let mut sorted: Vec<f64> = ends.iter().cloned().filter(|x| !x.is_nan()).collect();
    sorted.sort_by(|a, b| a.partial_cmp(b).unwrap());
    for &e in &sorted {
        a.push(e);
        a.push(next_up(e));
        a.push(next_down(e));
    }
    for w in sorted.windows(2) {
        if w[0] < w[1] && w[0].is_finite() && w[1].is_finite() {
            let m = w[0] / 2.0 + w[1] / 2.0;
            a.push(m);
        }
    }
    if let (Some(&lo), Some(&hi)) = (sorted.first(), sorted.last()) {
        if lo.is_finite() {
            a.push(lo - lo.abs().max(1.0));
        }
        if hi.is_finite() {
            a.push(hi + hi.abs().max(1.0));
        }
    }
    a.extend_from_slice(&[f64::INFINITY, f64::NEG_INFINITY, f64::MAX, -f64::MAX, 0.0, -0.0]);
    a.extend_from_slice(extra);
    if with_nan {
        for &b in NANS {
            a.push(f64::from_bits(b));
        }
    } else {
        a.retain(|x| !x.is_nan());
    }
    // dedup by bits, keep deterministic order: sort by total order
    a.sort_by(|x, y| x.total_cmp(y));
    a.dedup_by(|x, y| x.to_bits() == y.to_bits());
    a
}

/// Coefficient vectors with cancellation patterns; `n` coefficients, exponents within ±emax.
pub fn coeffs(n: usize, emax: i32) -> BoxedStrategy<Vec<f64>> {
    if n == 0 {
        return Just(Vec::new()).boxed();
    }
    let plain = vec(moderate(emax), n..=n);
    let pattern = (0u8..9, vec(moderate(emax), n..=n), any::<u16>(), any::<u16>()).prop_map(move |(pat, mut c, i, j)| {
        let i = idx(i, n);
        let j = idx(j, n);
        match pat {
            0 => {
                // alternating signs
                for (k, v) in c.iter_mut().enumerate() {
                    *v = if k % 2 == 0 { v.abs() } else { -v.abs() };
                }
            }
            1 => {
                // one dominating term
                c[i] *= 1048576.0;
            }
            2 => {
                // two nearly cancelling terms
                if i != j {
                    c[j] = -c[i] * (1.0 + f64::EPSILON * 3.0);
                }
            }
            3 => {
                // all zero but one
                let keep = c[i];
                for v in c.iter_mut() {
                    *v = 0.0;
                }
                c[i] = if keep == 0.0 { 1.0 } else { keep };
            }
            6 | 7 => {
                // "hand-written" vectors: small integers, about half of them zero (1 + ln t, t^4 - 24, ...)
                for (k, v) in c.iter_mut().enumerate() {
                    let h = (i as u64).wrapping_mul(0x9E37_79B9).wrapping_add((j as u64) << 7).wrapping_add(k as u64 * 0x85EB_CA6B) >> 3;
                    *v = if h % 2 == 0 { 0.0 } else { ((h / 2) % 5) as f64 - 2.0 };
                }
            }
            8 => {
                // a planted exact-negation pair (two inputs in an exact relation), also at the extremes
                if i != j {
                    c[j] = -c[i];
                }
            }
            4 => {
                // all comparable, distinct small integers (index slips change the value)
                for (k, v) in c.iter_mut().enumerate() {
                    *v = (k as f64 + 2.0) * if (k + i) % 3 == 0 { -1.0 } else { 1.0 };
                }
            }
            _ => {
                for v in c.iter_mut() {
                    *v = 0.0;
                }
            }
        }
        c
    });
    prop_oneof![3 => plain, 2 => pattern].boxed()
}

/// n pairwise distinct finite numbers over a wide exponent range (for operator checks)
pub fn distinct_numbers(n: usize) -> BoxedStrategy<Vec<f64>> {
    vec(any_finite(), n..=n)
        .prop_map(|mut v| {
            for i in 0..v.len() {
                let mut guard = 0;
                while (0..i).any(|j| v[j].to_bits() == v[i].to_bits()) && guard < 64 {
                    v[i] = if v[i] == 0.0 { 1.0 + i as f64 } else { v[i] * 1.5 + 1.0 };
                    if !v[i].is_finite() {
                        v[i] = i as f64 + 0.25;
                    }
                    guard += 1;
                }
            }
            v
        })
        .boxed()
}

/// common power-of-two scale (exact): 0 in ~70% of cases, else uniform in [-emax, emax].
/// The integral / spline properties are homogeneous in the ordinate direction, so a defect guarded
/// by an ABSOLUTE threshold (|shift| < EPSILON, ...) only shows when everything is small.
pub fn common_scale(emax: i32) -> BoxedStrategy<f64> {
    prop_oneof![
        7 => Just(1.0),
        3 => (-emax..=emax).prop_map(|k| ppv_exact::pow2_f64(k as i64)),
    ]
    .boxed()
}
