//! Shared pieces of the piecewise-function properties (C02, C03, C12, C16, C19).

use crate::fl::B;
use crate::gen;
use crate::runner::idx;
use piecewise_polynomial::*;
use proptest::collection::vec;
use proptest::prelude::*;
use serde::{Deserialize, Serialize};

/// A piecewise function described by plain data.
/// kind 0: tag pieces `Poly0(i)`; 1: `Poly1`; 2: `Poly3`; 3: `Log<Poly2>`; 4: `IntOfLogPoly4`;
/// 5..=8: functions that come out of other library operations built on the same ends (COMPOSITION:
/// `linear`, `constrained_spline`, `Piecewise::integral`, `&f + &g`); the oracle always uses the ends
/// of the function that was actually built.
#[derive(Clone, Debug, Hash, Serialize, Deserialize)]
pub struct PwSpec {
    pub kind: u8,
    pub ends: Vec<B>,
    /// pool of numbers the value pieces are built from
    pub pool: Vec<B>,
}

pub const NKINDS: u8 = 14;
pub const KIND_NAMES: [&str; 14] = [
    "tag-Poly0",
    "Poly1",
    "Poly3",
    "Log<Poly2>",
    "IntOfLogPoly4",
    "composed: output of linear()",
    "composed: output of constrained_spline()",
    "composed: Piecewise<Log<Poly4>>::integral()",
    "composed: &f + &g",
    "tag-Log<Poly0>",
    "composed: -(linear()) / linear() * -2",
    "PolyK (any degree 0..8)",
    "Log<PolyK> (any degree)",
    "IntOfLog<PolyK> (any degree)",
];

impl PwSpec {
    pub fn ends_f(&self) -> Vec<f64> {
        self.ends.iter().map(|b| b.0).collect()
    }
    pub fn num(&self, i: usize, j: usize) -> f64 {
        if self.pool.is_empty() {
            return (i + j) as f64;
        }
        let v = self.pool[(i * 3 + j) % self.pool.len()].0;
        if j == 0 && i > 0 {
            v + i as f64
        } else {
            v // (a constant term of exactly -0.0 stays possible for the first piece)
        }
    }
    pub fn tag(&self) -> Piecewise<Poly0> {
        Piecewise { segments: self.ends.iter().enumerate().map(|(i, e)| Segment { end: e.0, poly: Poly0(i as f64) }).collect() }
    }
    pub fn p1(&self) -> Piecewise<Poly1> {
        Piecewise {
            segments: self.ends.iter().enumerate().map(|(i, e)| Segment { end: e.0, poly: Poly1([self.num(i, 0), self.num(i, 1)]) }).collect(),
        }
    }
    pub fn p3(&self) -> Piecewise<Poly3> {
        Piecewise {
            segments: self
                .ends
                .iter()
                .enumerate()
                .map(|(i, e)| Segment { end: e.0, poly: Poly3([self.num(i, 0), self.num(i, 1), self.num(i, 2), self.num(i, 3)]) })
                .collect(),
        }
    }
    pub fn l2(&self) -> Piecewise<Log<Poly2>> {
        Piecewise {
            segments: self
                .ends
                .iter()
                .enumerate()
                .map(|(i, e)| Segment { end: e.0, poly: Log(Poly2([self.num(i, 0), self.num(i, 1), self.num(i, 2)])) })
                .collect(),
        }
    }
    pub fn q4(&self) -> Piecewise<IntOfLogPoly4> {
        Piecewise {
            segments: self
                .ends
                .iter()
                .enumerate()
                .map(|(i, e)| Segment {
                    end: e.0,
                    poly: IntOfLogPoly4 {
                        k: self.num(i, 0),
                        coeffs: [self.num(i, 1), self.num(i, 2), self.num(i, 3), self.num(i, 4)],
                        u: self.num(i, 5),
                    },
                })
                .collect(),
        }
    }
}

/// Visitor over the concrete piece type of a `PwSpec`.
pub trait PwVisitor {
    type Out;
    fn visit<T: Evaluate + Clone + std::fmt::Debug + 'static>(&mut self, pw: &Piecewise<T>, is_tag: bool) -> Self::Out;
}
pub fn visit_pw<V: PwVisitor>(spec: &PwSpec, v: &mut V) -> V::Out {
    let ends = spec.ends_f();
    match spec.kind % NKINDS {
        0 => v.visit(&spec.tag(), true),
        1 => v.visit(&spec.p1(), false),
        2 => v.visit(&spec.p3(), false),
        3 => v.visit(&spec.l2(), false),
        4 => v.visit(&spec.q4(), false),
        5 => {
            // linear() through knots at (first end - 1) and every end; ordinates from the pool
            if ends.iter().all(|e| e.is_finite()) {
                let mut knots = vec![Knot::new(ends[0] - ends[0].abs().max(1.0), spec.num(0, 1))];
                knots.extend(ends.iter().enumerate().map(|(i, &e)| Knot::new(e, spec.num(i, 0))));
                if knots.iter().all(|k| k.x.is_finite() && k.y.is_finite()) {
                    if let Ok(pw) = crate::runner::lib(|| linear(&knots)) {
                        return v.visit(&pw, false);
                    }
                }
            }
            v.visit(&spec.tag(), true)
        }
        6 => {
            // constrained_spline() through the distinct finite ends (needs >= 3 strictly increasing knots)
            let mut xs: Vec<f64> = Vec::new();
            for &e in &ends {
                if e.is_finite() && xs.last().map_or(true, |l| *l < e) {
                    xs.push(e);
                }
            }
            if xs.len() >= 2 {
                let mut knots = vec![Knot::new(xs[0] - xs[0].abs().max(1.0), spec.num(0, 1))];
                knots.extend(xs.iter().enumerate().map(|(i, &e)| Knot::new(e, spec.num(i, 0))));
                if knots.iter().all(|k| k.x.is_finite() && k.y.is_finite()) && knots[0].x < knots[1].x {
                    if let Ok(pw) = crate::runner::lib(|| constrained_spline(&knots)) {
                        return v.visit(&pw, false);
                    }
                }
            }
            v.visit(&spec.tag(), true)
        }
        7 => {
            // the integral of a Piecewise<Log<Poly4>> (gives quartic log-integral pieces)
            if ends.iter().all(|e| e.is_finite() && *e > 0.0) {
                let f = Piecewise {
                    segments: ends
                        .iter()
                        .enumerate()
                        .map(|(i, &e)| Segment { end: e, poly: Log(Poly4([spec.num(i, 0), spec.num(i, 1), spec.num(i, 2), spec.num(i, 3), spec.num(i, 4)])) })
                        .collect::<Vec<_>>(),
                };
                if let Ok(pw) = crate::runner::lib(|| f.integral(Knot::new(ends[0] * 0.5, spec.num(0, 5)))) {
                    return v.visit(&pw, false);
                }
            }
            v.visit(&spec.tag(), true)
        }
        9 => {
            // tag pieces behind the Log wrapper: Log(Poly0(i)) evaluates to i for EVERY argument (also negative ones)
            let pw = Piecewise { segments: ends.iter().enumerate().map(|(i, &e)| Segment { end: e, poly: Log(Poly0(i as f64)) }).collect::<Vec<_>>() };
            v.visit(&pw, true)
        }
        10 => {
            // a negated / negatively scaled polyline: constant terms of exactly -0.0, slopes of either sign
            if ends.iter().all(|e| e.is_finite()) {
                let mut knots = vec![Knot::new(ends[0] - ends[0].abs().max(1.0), spec.num(0, 1))];
                knots.extend(ends.iter().enumerate().map(|(i, &e)| Knot::new(e, if i % 3 == 0 { 0.0 } else { spec.num(i, 0) })));
                if knots.iter().all(|k| k.x.is_finite() && k.y.is_finite()) {
                    let neg = spec.pool.first().map_or(true, |b| b.0 >= 0.0);
                    if let Ok(pw) = crate::runner::lib(|| if neg { -linear(&knots) } else { linear(&knots) * -2.0 }) {
                        return v.visit(&pw, false);
                    }
                }
            }
            v.visit(&spec.tag(), true)
        }
        11 | 12 | 13 => {
            // every degree of every generic piece family (type instantiation matters: size_of, alignment, unrolling)
            let deg = (spec.pool.len() as u64 + spec.pool.first().map_or(0, |b| b.0.to_bits() >> 3) + ends.len() as u64) % 9;
            let pool: Vec<f64> = if spec.pool.is_empty() { vec![1.0, 2.0, 3.0] } else { spec.pool.iter().map(|b| b.0).collect() };
            let fam = spec.kind % NKINDS;
            fn go<V: PwVisitor, T: crate::model::Nums + Evaluate>(v: &mut V, ends: &[f64], pool: &[f64]) -> V::Out {
                v.visit(&crate::model::build_pw::<T>(ends, pool), false)
            }
            fn poly<P: crate::model::Nums + Evaluate, V: PwVisitor>(v: &mut V, ends: &[f64], pool: &[f64]) -> V::Out {
                go::<V, P>(v, ends, pool)
            }
            fn logp<P: crate::model::Nums + Evaluate, V: PwVisitor>(v: &mut V, ends: &[f64], pool: &[f64]) -> V::Out {
                go::<V, Log<P>>(v, ends, pool)
            }
            fn iolp<P: crate::model::Nums + Evaluate, V: PwVisitor>(v: &mut V, ends: &[f64], pool: &[f64]) -> V::Out {
                go::<V, IntOfLog<P>>(v, ends, pool)
            }
            macro_rules! by_deg {
                ($f:ident) => {
                    match deg {
                        0 => $f::<Poly0, V>(v, &ends, &pool),
                        1 => $f::<Poly1, V>(v, &ends, &pool),
                        2 => $f::<Poly2, V>(v, &ends, &pool),
                        3 => $f::<Poly3, V>(v, &ends, &pool),
                        4 => $f::<Poly4, V>(v, &ends, &pool),
                        5 => $f::<Poly5, V>(v, &ends, &pool),
                        6 => $f::<Poly6, V>(v, &ends, &pool),
                        7 => $f::<Poly7, V>(v, &ends, &pool),
                        _ => $f::<Poly8, V>(v, &ends, &pool),
                    }
                };
            }
            match fam {
                11 => by_deg!(poly),
                12 => by_deg!(logp),
                _ => by_deg!(iolp),
            }
        }
        _ => {
            // &f + &g: f on all ends, g on every other end
            let f = spec.q4();
            let g = Piecewise { segments: f.segments.iter().cloned().enumerate().filter(|(i, _)| i % 2 == 0).map(|(_, s)| s * 0.5).collect::<Vec<_>>() };
            match crate::runner::lib(|| &f + &g) {
                Ok(pw) => v.visit(&pw, false),
                Err(_) => v.visit(&spec.tag(), true),
            }
        }
    }
}

pub fn pw_spec(max_len: usize) -> BoxedStrategy<PwSpec> {
    let kind = prop_oneof![8 => Just(0u8), 1 => Just(1u8), 1 => Just(2u8), 1 => Just(3u8), 1 => Just(4u8), 1 => Just(5u8), 1 => Just(6u8), 1 => Just(7u8), 1 => Just(8u8), 2 => Just(9u8), 1 => Just(10u8), 2 => Just(11u8), 1 => Just(12u8), 1 => Just(13u8)];
    let long = (max_len * 5).max(100);
    (kind, any::<bool>(), gen::ends_long(max_len, long, false), gen::ends(max_len, true), vec(gen::moderate(20), 7))
        .prop_map(|(kind, positive, e_any, e_pos, pool)| {
            let ends = if (positive && (kind == 3 || kind == 4)) || kind == 7 { e_pos } else { e_any };
            PwSpec { kind, ends: ends.into_iter().map(B).collect(), pool: pool.into_iter().map(B).collect() }
        })
        .boxed()
}

/// One step of a query history, resolved against the (sorted) alphabet.
#[derive(Clone, Debug)]
pub enum Step {
    Abs(u16),
    Rel(i8),
    Repeat,
    First,
    Last,
    /// jump to a position of an *end* itself (alphabet entry equal to an end)
    OnEnd(u16),
}

pub fn step() -> impl Strategy<Value = Step> {
    prop_oneof![
        4 => any::<u16>().prop_map(Step::Abs),
        4 => (-6i8..=6).prop_map(Step::Rel),
        1 => Just(Step::Repeat),
        1 => Just(Step::First),
        1 => Just(Step::Last),
        3 => any::<u16>().prop_map(Step::OnEnd),
    ]
}

/// Resolve steps to concrete arguments. `alpha` must be sorted (total order).
pub fn resolve_steps(alpha: &[f64], ends: &[f64], steps: &[Step]) -> Vec<f64> {
    let mut out = Vec::with_capacity(steps.len());
    if alpha.is_empty() {
        return out;
    }
    let mut pos = 0usize;
    for s in steps {
        pos = match s {
            Step::Abs(i) => idx(*i, alpha.len()),
            Step::Rel(d) => (pos as i64 + *d as i64).clamp(0, alpha.len() as i64 - 1) as usize,
            Step::Repeat => pos,
            Step::First => 0,
            Step::Last => alpha.len() - 1,
            Step::OnEnd(i) => {
                let e = ends[idx(*i, ends.len())];
                alpha.iter().position(|a| a.to_bits() == e.to_bits()).unwrap_or(pos)
            }
        };
        out.push(alpha[pos]);
    }
    out
}

/// classify a query relative to the ends (labels for the evidence histogram)
pub fn classify_query(ends: &[f64], x: f64) -> &'static str {
    if x.is_nan() {
        return "q:nan";
    }
    if x.is_infinite() {
        return "q:inf";
    }
    if ends.iter().any(|&e| e == x) {
        return "q:on-end";
    }
    if ends.iter().any(|&e| ppv_exact::next_up(e) == x || ppv_exact::next_down(e) == x) {
        return "q:one-ulp-from-end";
    }
    let lo = ends[0];
    let hi = ends[ends.len() - 1];
    if x < lo {
        "q:below-first"
    } else if x > hi {
        "q:above-last"
    } else {
        "q:interior"
    }
}

pub fn has_duplicates(ends: &[f64]) -> bool {
    ends.windows(2).any(|w| w[0] == w[1])
}

/// All sorted multisets of 1..=max_len ends over `lattice` (small-scope enumeration)
pub fn enumerate_multisets(lattice: &[f64], max_len: usize) -> Vec<Vec<f64>> {
    fn rec(l: &[f64], start: usize, cur: &mut Vec<f64>, max_len: usize, out: &mut Vec<Vec<f64>>) {
        if !cur.is_empty() {
            out.push(cur.clone());
        }
        if cur.len() == max_len {
            return;
        }
        for i in start..l.len() {
            cur.push(l[i]);
            rec(l, i, cur, max_len, out);
            cur.pop();
        }
    }
    let mut out = Vec::new();
    rec(lattice, 0, &mut Vec::new(), max_len, &mut out);
    out
}

/// The 5-point lattice of the exhaustive small scope: contains an adjacent-float
/// pair and ±0.0 (note -0.0 == 0.0 under `<=`, so both orders are well-formed;
/// the enumeration keeps -0.0 before 0.0 and a second lattice swaps them).
pub fn small_lattice() -> Vec<f64> {
    vec![-1.0, -0.0, 0.0, 1.0, ppv_exact::next_up(1.0)]
}
