//! C10 — the quartic log-integral evaluates accurately for every positive argument.

use crate::bench_data::BENCH;
use crate::fl::{hex, B};
use crate::gen;
use crate::logint::*;
use crate::model::q4;
use crate::runner::{Ctx, Outcome, Prop, Tier};
use crate::{fail, lib};
use arbitrary::Unstructured;
use piecewise_polynomial::*;
use ppv_exact::Bf;
use proptest::collection::vec;
use proptest::prelude::*;
use serde::{Deserialize, Serialize};
use std::cmp::Ordering;

/// nums = [k, c1, c2, c3, c4, u]
#[derive(Clone, Debug, Hash, Serialize, Deserialize)]
pub struct Case {
    pub nums: Vec<B>,
    pub v: B,
}

pub struct C10;

/// KF1 (open known finding): `IntOfLogPoly4::evaluate` forms Σ c_j x^j + u·x^5R(x)
/// *before* scaling by v, so for tiny v (x = -ln v large, e^x = 1/v huge) an
/// intermediate overflows although every scaled term is moderate. Input-only
/// signature: e^x overflows f64 (v < 5.562684646268003e-309), or one of the
/// unscaled terms |c_j x^j|, |u x^5R(x)| reaches 2^1020.
pub const KF1_V: f64 = 5.562684646268003e-309;
pub const KF1_SIG: &str = "quartic-unscaled-intermediate-overflow";
pub fn kf1_matches(nums: &[f64], v: f64) -> bool {
    if v < KF1_V {
        return true;
    }
    if v >= 1.0 {
        return false;
    }
    let x = Bf::from_f64(v).ln().neg();
    let big = |t: &Bf| !t.is_zero() && t.0.top() >= 1020;
    let mut xp = Bf::one();
    for j in 1..=4 {
        xp = xp.mul(&x);
        if big(&xp.mul(&Bf::from_f64(nums[j]))) {
            return true;
        }
    }
    big(&x5r(&x).mul(&Bf::from_f64(nums[5])))
}

pub fn switch_points() -> [f64; 2] {
    // x = -ln v crosses -1.71 / 1.72  <=>  v = e^1.71 / e^-1.72
    [(1.71f64).exp(), (-1.72f64).exp()]
}

fn coeff_strategy() -> BoxedStrategy<Vec<f64>> {
    let rnd = || vec(gen::moderate(60), 6);
    prop_oneof![
        3 => rnd(),
        2 => (0..BENCH.len()).prop_map(|i| BENCH[i].1.to_vec()),
        // u only
        1 => gen::moderate(40).prop_map(|u| vec![0.0, 0.0, 0.0, 0.0, 0.0, if u == 0.0 { 1.0 } else { u }]),
        // one c_j only
        1 => (1usize..5, gen::moderate(40)).prop_map(|(j, c)| { let mut v = vec![0.0; 6]; v[j] = if c == 0.0 { 1.0 } else { c }; v }),
        // all comparable
        1 => vec(gen::scaled(-2, 2), 6),
        // COMPOSITION: the form as the library itself produces it from an integrand p0..p4 (with structured
        // zeros), via Log<Poly4>::indefinite() or ::integral(knot) - e.g. u == 24·c4 bit for bit when p4 == 0
        2 => (gen::coeffs(5, 20), any::<bool>(), gen::scaled_pos(-2, 2), gen::moderate(8)).prop_map(|(p, anchored, kx, ky)| {
            let l = Log(Poly4([p[0], p[1], p[2], p[3], p[4]]));
            let f = crate::runner::lib(|| if anchored { l.integral(Knot::new(kx, ky)) } else { l.indefinite() });
            match f {
                Ok(f) if f.k.is_finite() && f.u.is_finite() && f.coeffs.iter().all(|c| c.is_finite()) => vec![f.k, f.coeffs[0], f.coeffs[1], f.coeffs[2], f.coeffs[3], f.u],
                _ => vec![0.0, 0.0, 0.0, 0.0, 0.0, 1.0],
            }
        }),
        // k and u only
        1 => (gen::moderate(20), gen::moderate(20)).prop_map(|(k, u)| vec![k, 0.0, 0.0, 0.0, 0.0, u]),
    ]
    .boxed()
}

pub fn v_strategy() -> BoxedStrategy<f64> {
    let sw = switch_points();
    prop_oneof![
        // every float within ±4096 ulps of 1 and of the two switch points
        3 => (-4096i64..=4096).prop_map(|k| gen::nudge_bits(1.0, k)),
        2 => (-4096i64..=4096).prop_map(move |k| gen::nudge_bits(sw[0], k)),
        2 => (-4096i64..=4096).prop_map(move |k| gen::nudge_bits(sw[1], k)),
        // x swept over [-40, 40]
        3 => (-40_000i32..=40_000).prop_map(|i| (-(i as f64) / 1000.0).exp()),
        // |x| = 2^-j down to 2^-70
        1 => (1i32..=70, any::<bool>()).prop_map(|(j, s)| { let x = 2.0f64.powi(-j); (if s { x } else { -x }).exp() }),
        // the library's use case
        3 => (0u32..=400_000).prop_map(|i| 0.8 + i as f64 * 1e-6),
        // |x| up to 708 (beyond that is KF1 on one side; overflow of v on the other)
        1 => (-7080i32..=6900).prop_map(|i| (-(i as f64) / 10.0).exp()),
        // v = 1 ± m·2^-j: from a few ulps to a few per cent away from 1 (where a series-vs-limit slip shows)
        2 => (1i32..=52, 1u32..=64, any::<bool>()).prop_map(|(j, m, s)| { let d = m as f64 * 2.0f64.powi(-j - 6); if s { 1.0 + d } else { 1.0 - d } }),
        1 => gen::scaled_pos(-1000, 1023),
        1 => gen::from_table(&[f64::MIN_POSITIVE, f64::MAX, 1.0, 7.0, 1e-300, 5.562684646268004e-309, 2.0, 0.5, 1e-5, 1e-10, 1e-17]),
        // (1 in ~40) the region of the open finding KF1, so that its exclusion is exercised and counted
        1 => gen::from_table(&[5e-324, 1e-310, 5.562684646268003e-309, 2.2250738585072014e-308]),
    ]
    .boxed()
}

/// The oracle for one (form, v): Ok(label) or Err(message)
pub fn judge(nums: &[f64], v: f64, got: f64) -> Result<Option<&'static str>, String> {
    judge_r(nums, v, got).map(|(o, _)| o)
}
/// as `judge`, also returning |error| / (1e-12·Σ|terms|)
pub fn judge_r(nums: &[f64], v: f64, got: f64) -> Result<(Option<&'static str>, f64), String> {
    let (k, c, u) = (nums[0], [nums[1], nums[2], nums[3], nums[4]], nums[5]);
    if v == 1.0 {
        if !(got == k) {
            return Err(format!("value at v=1 is {} but must be exactly k = {}", hex(got), hex(k)));
        }
        return Ok((None, 0.0));
    }
    let (e, m) = quartic_value(k, &c, u, v);
    // domain: the magnitude sum within 2^±900 (individual zero terms are fine)
    if !m.is_zero() && (m.0.top() > 900 || m.0.top() < -900) {
        return Ok((Some("magnitude sum outside 2^±900"), 0.0));
    }
    if !got.is_finite() {
        return Err(format!("evaluate returned {} but the true value is {} (magnitude sum {})", hex(got), e.dy().show(), m.dy().show()));
    }
    let err = Bf::from_f64(got).sub(&e).abs();
    let bound = tol_1e12().mul(&m);
    if err.cmp(&bound) == Ordering::Greater {
        let rel = if m.is_zero() { f64::INFINITY } else { err.div(&m).to_f64() };
        return Err(format!(
            "evaluate returned {} but k + vΣc_j x^j + u·v·x^5R(x) = {} (x = -ln v = {}); |error| = {:.3e} × Σ|terms| (allowed 1e-12), Σ|terms| = {}",
            hex(got),
            e.dy().show(),
            Bf::from_f64(v).ln().neg().to_f64(),
            rel,
            m.dy().show()
        ));
    }
    let r = if bound.is_zero() || err.is_zero() { 0.0 } else { err.div(&bound).to_f64() };
    Ok((None, r))
}

impl Prop for C10 {
    type Case = Case;
    fn id(&self) -> &'static str {
        "C10"
    }
    fn rule(&self) -> String {
        "case = ((k,c1..c4,u): random with exponents up to ±60 and zeros, the 45 benchmark pieces of the repository, u only, one c_j only, all comparable, k and u only, forms produced by the library itself from an integrand with structured zeros (Log<Poly4>::indefinite / integral); all six numbers times a common power of two 2^k (k=0 in 70% of cases, else uniform in ±250); v>0: every float within ±4096 ulps of 1, of e^1.71 and of e^-1.72 (the two switch points), e^-x for x swept over [-40,40] in steps of 1e-3, |x| = 2^-j down to 2^-70, v in [0.8,1.2] in steps of 1e-6, v = 1 ± m·2^-j for j up to 58, |x| up to 708, full-range v, MIN_POSITIVE, MAX, a few subnormal v). Oracle: x = -ln v and x^5R(x) in 384-bit arithmetic (series for |x|<2, e^x minus the 5-term Taylor polynomial otherwise; the two are compared in the self-test); |fl - E| <= 1e-12·(|k| + Σ|v c_j x^j| + |u v x^5R|); at v = 1 the value must be exactly k. Domain: magnitude sum within 2^±900 (else counted as excluded). Inputs matching the signature of the open known finding KF1 (e^x overflows, i.e. v < 5.5627e-309, or an unscaled term |c_j x^j|, |u x^5R(x)| >= 2^1020) are excluded and counted while it is listed. Non-trivial: u != 0 and v != 1. Thorough: additionally the complete ±4096-ulp neighbourhoods of the three special points for 32 coefficient sets.".into()
    }
    fn assumptions(&self) -> Vec<String> {
        vec!["1e-12 is used truncated to 384 bits (a hair stricter than the property's constant)".into()]
    }
    fn cases(&self, tier: Tier) -> u64 {
        tier.pick(300_000, 4_000_000)
    }
    fn strategy(&self, _tier: Tier) -> BoxedStrategy<Case> {
        (coeff_strategy(), v_strategy(), gen::common_scale(250)).prop_map(|(n, v, sc)| Case { nums: n.into_iter().map(|t| B(t * sc)).collect(), v: B(v) }).boxed()
    }
    fn check(&self, case: &Case, ctx: &mut Ctx) -> Outcome {
        let nums: Vec<f64> = case.nums.iter().map(|b| b.0).collect();
        let v = case.v.0;
        if nums.len() != 6 || nums.iter().any(|x| !x.is_finite()) || !(v > 0.0) || !v.is_finite() {
            return Outcome::Skip("malformed case");
        }
        if ctx.open(KF1_SIG) && kf1_matches(&nums, v) {
            return Outcome::Known(KF1_SIG);
        }
        let f = q4(&nums);
        let got = lib!(f.evaluate(v));
        ctx.comparisons += 1;
        let x = -v.ln();
        ctx.label(if -1.71 < x && x < 1.72 { "branch:series" } else { "branch:closed-form" });
        if (v - 1.0).abs() < 1e-9 {
            ctx.label("near-one");
        }
        let sw = switch_points();
        if (v - sw[0]).abs() < 1e-11 || (v - sw[1]).abs() < 1e-12 {
            ctx.label("near-switch");
        }
        ctx.label(match x.abs() {
            a if a < 1e-9 => "|x|<1e-9",
            a if a < 1e-3 => "|x|<1e-3",
            a if a < 0.25 => "|x|<0.25 (use case)",
            a if a < 2.0 => "|x|<2",
            a if a < 40.0 => "|x|<40",
            _ => "|x|>=40",
        });
        ctx.nontrivial = nums[5] != 0.0 && v != 1.0;
        match judge_r(&nums, v, got) {
            Ok((None, r)) => {
                ctx.ratio("|fl-E| / (1e-12·Σ|terms|)", r);
                Outcome::Pass
            }
            Ok((Some(r), _)) => Outcome::Skip(r),
            Err(m) => fail!("IntOfLogPoly4 {{k:{:?}, coeffs:{:?}, u:{:?}}}.evaluate({}): {m}", nums[0], &nums[1..5], nums[5], hex(v)),
        }
    }
    fn extras(&self, tier: Tier, _seed: u64, shard: u32, nshards: u32, sink: &mut dyn FnMut(Case, &'static str)) {
        // complete neighbourhoods of the three special points
        let radius: i64 = tier.pick(256, 4096);
        let nsets = tier.pick(6usize, 32usize);
        let sw = switch_points();
        let mut sets: Vec<Vec<f64>> = vec![
            vec![0.0, 0.0, 0.0, 0.0, 0.0, 1.0],
            vec![1.0, 1.0, 1.0, 1.0, 1.0, 1.0],
            vec![0.5, -1.0, 2.0, -3.0, 4.0, -120.0],
        ];
        for i in 0..BENCH.len() {
            sets.push(BENCH[(i * 7) % BENCH.len()].1.to_vec());
        }
        sets.truncate(nsets);
        let mut n = 0u32;
        for s in &sets {
            for (ci, &center) in [1.0, sw[0], sw[1]].iter().enumerate() {
                n += 1;
                if n % nshards != shard {
                    continue;
                }
                for k in -radius..=radius {
                    let v = gen::nudge_bits(center, k);
                    sink(Case { nums: s.iter().map(|&x| B(x)).collect(), v: B(v) }, ["ulp-neighbourhood-of-1", "ulp-neighbourhood-of-e^1.71", "ulp-neighbourhood-of-e^-1.72"][ci]);
                }
            }
        }
    }
    fn exhaustive_scopes(&self, tier: Tier) -> Vec<String> {
        vec![format!("every float within ±{} ulps of v=1, e^1.71, e^-1.72 for {} coefficient sets", tier.pick(256, 4096), tier.pick(6, 32))]
    }
    fn from_bytes(&self, u: &mut Unstructured) -> Option<Case> {
        let mut nums = Vec::with_capacity(6);
        let mode: u8 = u.arbitrary().ok()?;
        if mode % 4 == 0 {
            let i: u8 = u.arbitrary().ok()?;
            nums = BENCH[i as usize % BENCH.len()].1.to_vec();
        } else {
            for _ in 0..6 {
                let (e, m, z): (i8, u16, u8) = u.arbitrary().ok()?;
                nums.push(if z % 5 == 0 { 0.0 } else { gen::compose(m & 1 == 1, (e as i32) / 3, 2, m as u64) });
            }
        }
        let sel: u8 = u.arbitrary().ok()?;
        let sw = switch_points();
        let v = match sel % 6 {
            0 => gen::nudge_bits(1.0, u.arbitrary::<i16>().ok()? as i64),
            1 => gen::nudge_bits(sw[0], u.arbitrary::<i16>().ok()? as i64),
            2 => gen::nudge_bits(sw[1], u.arbitrary::<i16>().ok()? as i64),
            3 => (-(u.arbitrary::<i16>().ok()? as f64) / 800.0).exp(),
            4 => 0.8 + (u.arbitrary::<u16>().ok()? as f64) * 6.1e-6,
            _ => {
                let b: u64 = u.arbitrary().ok()?;
                let f = f64::from_bits(b & 0x7fff_ffff_ffff_ffff);
                if f.is_finite() && f > 0.0 {
                    f
                } else {
                    2.0
                }
            }
        };
        Some(Case { nums: nums.into_iter().map(B).collect(), v: B(v) })
    }
}
