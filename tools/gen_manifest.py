#!/usr/bin/env python3
"""Generates /verif/MANIFEST.json from the table below (single source of truth)."""
import json, os, sys
ROOT = os.path.dirname(os.path.dirname(os.path.abspath(__file__)))

# id -> (technique, level text, level_note, design_ref, engines)
CHECKS = {
 "C01": ("property-based testing (proptest): generated (form, coefficients, argument) against an exact dyadic evaluation of sum c_i x^i and the property's own bound; exact-class subcases; dense deterministic x sweeps",
         "No violation of |fl-P| <= 4(n+2)u*S (exact inequality) among generated cases over all 19 forms with cancellation patterns, signs, |x|<1 / >1, and of exact equality in the exact class; Log forms against a 384-bit ln. Exploration.",
         "Trusted: ppv-exact (exact dyadic arithmetic, 384-bit ln; self-tested every run); platform ln within one ulp.",
         "DESIGN.md §4 C01"),
 "C02": ("property-based testing (proptest) against a linear-scan selection model, bit-exact; exhaustive small scope; libFuzzer campaign in the thorough tier",
         "No violation among the generated (segment list, query) cases from a generator that makes on-end / one-ulp / duplicate-end / signed-zero / infinite configurations common, plus complete enumeration of all lists of <=4 ends over a 5-point lattice with their whole query alphabet. Exploration, not proof.",
         "Trusted: the 10-line selection model (cross-checked against a partition_point formulation in the self-test); calling the selected piece's evaluate directly to obtain the expected bits.",
         "DESIGN.md §4 C02"),
 "C03": ("model-based stateful property testing (proptest-generated query histories vs. stateless model), exhaustive short histories, breadth-first exploration of the evaluator's reachable hidden states via hook verif_state; libFuzzer campaign in the thorough tier",
         "No violation among generated histories (backward jumps over several segments, landings on ends, last->first, repeats, +-inf) and, for each explored list and its alphabet, among ALL (reachable evaluator state, query) pairs - which covers histories of unbounded length over that alphabet for that list. Exploration over lists/alphabets.",
         "Trusted: selection model; hook verif_state exposes the complete hidden state (cursor offset, tail length, last argument bits).",
         "DESIGN.md §4 C03"),
 "C04": ("property-based testing (proptest): generated admissible knot sequences against the exact (384-bit, exact sign decisions) Kruger construction and its magnitude shadows",
         "No violation of interpolation at both knots of every interval (exact evaluation of the returned cubic and through evaluate), of derivative continuity and of the prescribed knot slopes, within 64u*shadow, among generated knot sets incl. offsets up to 1e9, one-ulp steps, plateaus, near-collinear data. Exploration.",
         "Trusted: ppv-exact; K=64 as the reading of 'a small multiple of 2^-53 times the magnitudes of the intermediate terms' (measured worst ratio reported in the evidence).",
         "DESIGN.md §4 C04"),
 "C05": ("property-based testing (proptest): same generator/reference as C04; coefficient agreement with the exact spline, no-overshoot/monotonicity decided analytically from the returned cubic's critical points (exact discriminant sign, exact evaluation), flatness at data extrema",
         "No violation among generated knot sets, with at least one extremum/plateau knot in most cases (the branch no test executes); 'every real x of the interval' is decided from critical points, not by sampling. Exploration over knot sets.",
         "Trusted: ppv-exact; K=64; root location uses an f64 sqrt only to choose where to evaluate exactly (a miss can only lose detection power, never raise an alarm).",
         "DESIGN.md §4 C05"),
 "C06": ("property-based testing (proptest): generated knot slices (out-of-order, repeated, gaps around machine epsilon, large offsets) against a running-maximum model and the exact straight-line interpolant",
         "No violation of the structural clauses (count, ends = running maximum), of the narrow-segment/constant rule decided on the exact width, of interpolation at both forced knots, and of evaluate() vs the exact line at, between and outside knots. Exploration.",
         "Trusted: ppv-exact; value clauses judged for magnitudes within 2^+-200.",
         "DESIGN.md §4 C06"),
 "C07": ("property-based testing (proptest): generated (degree, coefficients, knot, a, b) against exact c_i/(i+1) (one-ulp rule checked by exact cross-multiplication) and the 384-bit integral",
         "No violation of: constant 0 and coefficients of indefinite(), vertical-shift-only integral(knot), passing through the knot (exact evaluation), F(b)-F(a) = exact integral, integral().derivative() = p within one ulp, Segment delegation; knots of any sign incl. 0. Exploration.",
         "Trusted: ppv-exact.",
         "DESIGN.md §4 C07"),
 "C08": ("property-based testing (proptest): generated coefficient vectors over every finite class against exact (i+1)c (one-ulp rule, bit-exact for power-of-two factors) and structural equality for Segment/Piecewise",
         "No violation among generated cases for degrees 0..8 and piecewise functions of 0..12 pieces (ends bit-identical, pieces bit-identical to differentiating the piece alone, value clause against exact p'(x)). Exploration.",
         "Trusted: ppv-exact.",
         "DESIGN.md §4 C08"),
 "C09": ("property-based testing (proptest): differential against an independent closed form t*Q(ln t) (exact Q, 384-bit ln) through Evaluate::evaluate of the returned integral objects",
         "No violation among generated (degree 0..8, coefficients, knot, a, b) with points other than 1 the norm: F(knot.x)=knot.y, F(b)-F(a) = integral, indefinite() likewise, within 160u*M (quartic: (1e-12+160u)*M). Found D1 (fixed in /repo). Exploration.",
         "Trusted: ppv-exact; K=160 (derivation in DESIGN.md; measured worst ratio in the evidence). Inputs matching the open finding KF1 (quartic form at tiny points) are excluded and counted.",
         "DESIGN.md §4 C09"),
 "C10": ("property-based testing (proptest) with directed generators (every float within +-4096 ulps of v=1 and of both switch points, dense x sweeps, use-case range) against a 384-bit evaluation of the defining formula and the property's own 1e-12 bound; libFuzzer campaign in the thorough tier",
         "No violation of |fl-E| <= 1e-12*sum|terms| and of exactness at v=1 among generated cases and complete ulp-neighbourhoods of the three special points, outside the recorded open finding KF1 (unscaled intermediate overflow for tiny v), which is reported as KNOWN-FINDING and whose inputs are excluded by a narrow input-only signature. Exploration.",
         "Trusted: ppv-exact (series and closed form of x^5R cross-checked in the self-test).",
         "DESIGN.md §4 C10, §5 KF1"),
 "C11": ("property-based testing (proptest): generated piecewise functions over Poly0..7 and Log<Poly0..8> with knots inside/at/beyond the first piece, against per-piece exact integrals accumulated exactly",
         "No violation of: breakpoints kept, first piece through k0, continuity at every interior breakpoint, every piece an antiderivative, F(t)=k0.y+integral through Piecewise::evaluate, indefinite() rules, iterator equality. Catches D1 as well (regression case kept). Exploration.",
         "Trusted: ppv-exact; tolerance 160(j+1)u*W_j with cumulative magnitude W_j.",
         "DESIGN.md §4 C11"),
 "C12": ("property-based testing (proptest) against the selection model applied to the running maximum, bit-exact, with a counting iterator for laziness; exhaustive short sequences; libFuzzer campaign in the thorough tier",
         "No violation among generated sorted / arbitrary-order sequences and all sequences of length 3 over the alphabets of the small-scope lists. Exploration.",
         "Trusted: selection model.",
         "DESIGN.md §4 C12"),
 "C13": ("property-based testing (proptest): pairs of segment lists from one shared lattice; the merged result is judged at the whole union alphabet against the selection model applied to both operands (field-by-field, bit-exact); exhaustive small scope of pairs; libFuzzer campaign in the thorough tier",
         "No violation of structure (non-empty, non-decreasing, ends from operands, length bound) and of 'the piece selected at x is op(piece of f at x, piece of g at x)' for both operators, plus a value clause against 384-bit f(x) op g(x). Exploration.",
         "Trusted: selection model; ppv-exact for the value clause (KF1 inputs excluded there and counted).",
         "DESIGN.md §4 C13"),
 "C14": ("property-based testing (proptest): every operator impl x degree instance is part of the generated case; result numbers compared with the single correctly rounded f64 operation on the inputs",
         "No violation among generated cases over the 125 (impl, degree) instances with pairwise distinct operands (an index slip changes the result), full exponent range, special scalars; value clause for plain polynomials against exact arithmetic. Exploration.",
         "Trusted: IEEE f64 +,-,* of the host as the 'correctly rounded operation'; ppv-exact for the value clause.",
         "DESIGN.md §4 C14"),
 "C15": ("property-based testing (proptest): every (operator, piece family, degree) combination whose bounds are satisfiable; ends compared bit for bit, pieces with the operator applied to the piece alone",
         "No violation among generated piecewise functions of 0..12 pieces: count, order, every end bit-identical, every piece equal to the piece-level operator (which C14 pins). Exploration.",
         "Trusted: the piece-level operators as pinned by C14.",
         "DESIGN.md §4 C15"),
 "C16": ("property-based testing with NaN/inf injected into query histories (same engine as C03, incl. state exploration with NaN in the alphabet) + generated 'operation soup' over the public API under catch_unwind with debug-assertions/overflow-checks on; libFuzzer campaign in the thorough tier",
         "No panic and no post-NaN disagreement among generated histories and all (reachable state, query) pairs incl. 5 NaN payloads; no panic in generated sequences of every public operation on well-formed finite input. Found D2 (fixed in /repo; regression cases kept). Exploration.",
         "Trusted: the hand-written enumeration of the public API (props/soup.rs); panics are observed via catch_unwind (panic=unwind build).",
         "DESIGN.md §4 C16"),
 "C17": ("property-based testing (proptest): pairs (a, b) with b a perturbation of a around the tolerance, against the conjunction of the f64 relations over the flattened numbers; libFuzzer campaign in the thorough tier",
         "No violation among generated pairs over all approx impls (PolyN, Poly0..8, Log, IntOfLog, IntOfLogPoly4, Segment, Piecewise), both relations, both argument orders, default-tolerance macros, reflexivity on finite values, == consistency. Exploration.",
         "Trusted: the f64 impls of the approx crate; flattening by direct field access.",
         "DESIGN.md §4 C17"),
 "C18": ("property-based testing (proptest) round-trip over three wire formats (serde_json, serde_cbor, borsh) in two build configurations (default features; --features borsh); libFuzzer campaign in the thorough tier",
         "No violation of decode(encode(v)) == v with bit-identical numbers among generated values of every serializable type with hard floats (subnormals, -0.0, extremes, f16/f32 boundary values), 0..16 segments, in both build configurations. Exploration.",
         "Trusted: serde_json(float_roundtrip)/serde_cbor/borsh as representatives of 'serde'; NaN excluded as the property says.",
         "DESIGN.md §4 C18"),
 "C19": ("property-based testing (proptest) with byte strings constructed in Arbitrary's wire layout (chosen end lists, truncation at every position) plus random bytes; three-way evaluation against the selection model; libFuzzer campaign on raw bytes in the thorough tier",
         "No panic, and every Ok value well-formed (>=1 segment, normal non-decreasing ends) and evaluated consistently by direct evaluation, the stateful evaluator and evaluate_v, among generated byte strings (about half decode to Ok). Exploration.",
         "Trusted: selection model.",
         "DESIGN.md §4 C19"),
}

NOT_YET = {}  # id -> reason, filled from properties.jsonl for everything not in CHECKS

def main():
    props = [json.loads(l) for l in open(os.path.join(ROOT, "properties.jsonl"))]
    checks = []
    na = []
    for p in props:
        i = p["id"]
        if i in CHECKS:
            tech, text, note, ref = CHECKS[i]
            checks.append({
                "property_id": i,
                "quick_cmd": f"./check {i} quick",
                "thorough_cmd": f"./check {i} thorough",
                "evidence_file": f"/verif/evidence/{i}.json",
                "replay_cmd_template": f"./check --replay {i} {{path}}",
                "engine": "ppcheck",
                "level_claimed": {"category": "exploration", "text": text, "design_ref": ref},
                "level_note": note,
                "technique": tech,
            })
        else:
            na.append({"property_id": i, "reason": NOT_YET.get(i, "check not built yet (work in progress; the design for it is in DESIGN.md §4) - no claim is made")})
    m = {
        "version": 1,
        "setup_cmd": "./check --setup",
        "hooks": {
            "guard": "cargo feature `verif-hooks` of piecewise_polynomial",
            "enable": "the harness depends on piecewise_polynomial = { path = \"/repo\", features = [\"verif-hooks\"] }; every ./check rebuilds it from /repo's working tree",
            "baseline_off_cmd": "cd /repo && cargo test --workspace --no-fail-fast --offline",
            "source_commits": ["8b42894"],
            "add_only": True,
        },
        "engines": [
            {"name": "ppcheck", "path": "/verif/harness", "serves_properties": sorted(CHECKS),
             "kind_free_text": "Rust binary: sharded seed-deterministic proptest runners + exhaustive small scopes + exact dyadic / 384-bit big-float oracle (ppv-exact); writes evidence and shrunk replay files"},
        ],
        "checks": checks,
        "not_applicable": na,
        "notes": "See DESIGN.md. known_findings.txt lists open / fixed findings (fix commits in /repo: fc0f744 NaN evaluator state, fbf52de IntOfLog::evaluate factor v; open: KF1 quartic unscaled-intermediate overflow, reported as KNOWN-FINDING by C09/C10/C13). regress/<id>/*.json are saved cases replayed on every run; findings/*.json are witnesses of open findings. Exit 2 = infrastructure problem / inconclusive, never a violation.",
    }
    json.dump(m, open(os.path.join(ROOT, "MANIFEST.json"), "w"), indent=1)
    print(f"{len(checks)} checks, {len(na)} not claimed")

if __name__ == "__main__":
    main()
