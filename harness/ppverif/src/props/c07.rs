//! C07 — polynomial integration yields the antiderivative through the given knot.

use crate::fl::{hex, B};
use crate::gen;
use crate::model::{nums_eq, PolyK};
use crate::num::*;
use crate::runner::{Ctx, Outcome, Prop, Tier};
use crate::{dispatch_deg7, fail, lib};
use piecewise_polynomial::*;
use ppv_exact::{d, Bf, Dy};
use proptest::collection::vec;
use proptest::prelude::*;
use serde::{Deserialize, Serialize};

#[derive(Clone, Debug, Hash, Serialize, Deserialize)]
pub struct Case {
    pub deg: u8,
    pub c: Vec<B>,
    pub kx: B,
    pub ky: B,
    pub a: B,
    pub b: B,
    pub end: B,
}

pub struct C07;

/// exact ∫_a^b Σ c_i t^i dt  (384-bit; each term's division is the only rounding)
pub fn exact_poly_integral(c: &[f64], a: &Dy, b: &Dy) -> Bf {
    let mut acc = Bf::zero();
    let mut pa = Dy::one();
    let mut pb = Dy::one();
    for (i, &ci) in c.iter().enumerate() {
        pa = pa.mul(a);
        pb = pb.mul(b);
        let diff = pb.sub(&pa); // exact b^(i+1) - a^(i+1)
        let term = Bf::from_dy(&d(ci).mul(&diff)).div_u64(i as u64 + 1);
        acc = acc.add(&term);
    }
    acc
}
/// majorant Σ |c_i| (|a|^(i+1) + |b|^(i+1)) / (i+1), rounded up
pub fn integral_majorant(c: &[f64], a: &Dy, b: &Dy) -> Dy {
    let (aa, ab) = (a.abs(), b.abs());
    let mut acc = Dy::zero();
    let mut pa = Dy::one();
    let mut pb = Dy::one();
    for &ci in c.iter() {
        pa = pa.mul(&aa);
        pb = pb.mul(&ab);
        // dividing by (i+1) >= 1 only shrinks: use the undivided term (a valid, slightly larger majorant / (i+1) <= term)
        acc = acc.add(&d(ci).abs().mul(&pa.add(&pb)));
    }
    acc
}

fn check_k<P>(case: &Case, c: &[f64], ctx: &mut Ctx) -> Outcome
where
    P: PolyK + HasIntegral,
    P::IntegralOf: PolyK + HasDerivative + Translate,
    <P::IntegralOf as HasDerivative>::DerivativeOf: PolyK,
{
    let n = P::DEG;
    let m = n + 1; // degree of the integral
    let p = P::from_coeffs(c);
    let knot = Knot::new(case.kx.0, case.ky.0);
    // ---- clause 1: indefinite() ----
    let indef = lib!(p.indefinite());
    let ic = indef.coeffs();
    if ic.len() != n + 2 {
        fail!("indefinite() of degree {n} has {} coefficients", ic.len());
    }
    ctx.comparisons += 1;
    if ic[0] != 0.0 {
        fail!("Poly{n}{c:?}.indefinite(): constant term is {} (must be 0)", hex(ic[0]));
    }
    let mut subnormal_q = false;
    for i in 0..=n {
        let div = i as u64 + 1;
        let got = ic[i + 1];
        ctx.comparisons += 1;
        if div.is_power_of_two() {
            let want = d(c[i]).mul_pow2(-(div.trailing_zeros() as i64)).to_f64();
            if !(got == want) {
                fail!("Poly{n}.indefinite(): coefficient {} is {} but c[{i}]/{div} = {}/{div} = {} exactly", i + 1, hex(got), hex(c[i]), hex(want));
            }
        } else if !quotient_within_ulps(got, &d(c[i]), &Dy::from_u64(div), 1) {
            fail!("Poly{n}.indefinite(): coefficient {} is {} but c[{i}]/{div} = {}/{div} (more than one ulp away)", i + 1, hex(got), hex(c[i]));
        }
        if c[i] != 0.0 && d(c[i]).top() - 4 < -1022 {
            subnormal_q = true;
        }
    }
    // ---- clause 2: integral(knot) ----
    let integ = lib!(p.integral(knot));
    let fc = integ.coeffs();
    ctx.comparisons += 1;
    if !nums_eq(&fc[1..], &ic[1..]) {
        fail!("Poly{n}.integral(knot): non-constant coefficients {:?} differ from indefinite()'s {:?} (must be a vertical shift only; identical numbers, the sign of a zero is not pinned)", &fc[1..], &ic[1..]);
    }
    // domain for the value clauses: every term of the integral at knot.x, a, b within 2^±900
    let in_dom = |x: f64| -> bool {
        let xd = d(x);
        let mut pw = Dy::one();
        for (i, &ci) in ic.iter().enumerate() {
            if i > 0 {
                pw = pw.mul(&xd);
            }
            // powers x^i with i >= 2 are formed by the evaluation schemes and must be in range; x itself is an exact
            // input (a subnormal knot.x is fine as long as the terms are in range)
            if (i >= 2 && !in_range(&pw, 900)) || !in_range(&pw.mul(&d(ci)), 900) || !in_range(&d(ci), 900) {
                return false;
            }
        }
        true
    };
    let y_ok = in_range(&d(knot.y), 900);
    let kq = 4 * (m as u64 + 2);
    if in_dom(knot.x) && y_ok && !subnormal_q {
        let xd = d(knot.x);
        let fx = poly_exact(&fc, &xd); // exact value of the returned polynomial at knot.x
        let s_i = poly_abs(&ic, &xd);
        let bound = u().mul(&d(knot.y).abs().add(&s_i)).mul_u64(kq + 2);
        ctx.comparisons += 1;
        if !fc[0].is_finite() || !d(0.0).add(&fx).sub(&d(knot.y)).abs().le(&bound) {
            fail!(
                "Poly{n}{c:?}.integral(knot=({}, {})) = {:?}: its exact value at knot.x is {} instead of knot.y (allowed deviation {})",
                hex(knot.x), hex(knot.y), fc, fx.show(), bound.show()
            );
        }
        // through evaluate
        let got = lib!(integ.evaluate(knot.x));
        let s_f = poly_abs(&fc, &xd);
        let bound2 = bound.add(&u().mul(&s_f).mul_u64(kq));
        ctx.comparisons += 1;
        if !within(got, &d(knot.y), &bound2) {
            fail!(
                "Poly{n}{c:?}.integral(knot=({}, {})).evaluate(knot.x) = {} (error {:.3e} × allowed {})",
                hex(knot.x), hex(knot.y), hex(got), ratio(got, &d(knot.y), &bound2), bound2.show()
            );
        }
    } else {
        ctx.label("knot clause out of domain");
    }
    // ---- clause 3: F(b) - F(a) ----
    let (a, b) = (case.a.0, case.b.0);
    if in_dom(a) && in_dom(b) && fc[0].is_finite() && in_range(&d(fc[0]), 900) && !subnormal_q {
        let (ad, bd) = (d(a), d(b));
        let fa = lib!(integ.evaluate(a));
        let fb = lib!(integ.evaluate(b));
        if !fa.is_finite() || !fb.is_finite() {
            fail!("Poly{n}{c:?}.integral(..).evaluate gave non-finite {} / {} at a={}, b={}", hex(fa), hex(fb), hex(a), hex(b));
        }
        let got = d(fb).sub(&d(fa));
        let exact = exact_poly_integral(c, &ad, &bd);
        let s_sum = poly_abs(&fc, &ad).add(&poly_abs(&fc, &bd));
        let maj = integral_majorant(c, &ad, &bd);
        let bound = u().mul(&s_sum).mul_u64(kq + 1).add(&u().mul(&maj)).add(&maj.mul_pow2(-300));
        ctx.comparisons += 1;
        if !got.sub(exact.dy()).abs().le(&bound) {
            fail!(
                "Poly{n}{c:?}.integral(knot=({}, {})): F(b)-F(a) = {} for a={}, b={} but the exact integral of p over [a,b] is {} (allowed deviation {})",
                hex(knot.x), hex(knot.y), got.show(), hex(a), hex(b), exact.dy().show(), bound.show()
            );
        }
        ctx.label(if a < b { "a<b" } else if a > b { "a>b" } else { "a=b" });
    } else {
        ctx.label("area clause out of domain");
    }
    // ---- clause 4: derivative of the integral returns p within one ulp ----
    if !subnormal_q {
        let back = lib!(integ.derivative());
        let bc = back.coeffs();
        if bc.len() != n + 1 {
            fail!("integral(..).derivative() has {} coefficients, p has {}", bc.len(), n + 1);
        }
        for i in 0..=n {
            ctx.comparisons += 1;
            if !quotient_within_ulps(bc[i], &d(c[i]), &Dy::one(), 1) {
                fail!("Poly{n}{c:?}: integral(..).derivative() coefficient {i} is {} but the integrand's is {} (more than one ulp)", hex(bc[i]), hex(c[i]));
            }
        }
    } else {
        ctx.label("c_i/(i+1) subnormal: round-trip clause skipped");
    }
    // ---- clause 5: Segment delegates ----
    let seg = Segment { end: case.end.0, poly: p };
    let si = lib!(seg.indefinite());
    let sk = lib!(seg.integral(knot));
    ctx.comparisons += 2;
    if si.end.to_bits() != seg.end.to_bits() || !nums_eq(&si.poly.coeffs(), &ic) {
        fail!("Segment::indefinite: {:?} differs from end {} / piece-level {:?}", si, hex(seg.end), ic);
    }
    // Segment::integral(knot): the SAME clauses as for the bare polynomial (end kept; a vertical shift of the
    // indefinite integral; through the knot within the same bound) - not bit-identity with the piece-level call,
    // which the property does not state (the constant may legitimately be rounded differently)
    let skc = sk.poly.coeffs();
    if sk.end.to_bits() != seg.end.to_bits() || skc.len() != fc.len() || !nums_eq(&skc[1..], &ic[1..]) {
        fail!("Segment::integral(knot): {:?} does not keep the end {} / is not a vertical shift of the indefinite integral {:?}", sk, hex(seg.end), ic);
    }
    if in_dom(knot.x) && y_ok && !subnormal_q {
        let xd = d(knot.x);
        let fx = poly_exact(&skc, &xd);
        let s_i = poly_abs(&ic, &xd);
        let bound = u().mul(&d(knot.y).abs().add(&s_i)).mul_u64(kq + 2);
        ctx.comparisons += 1;
        if !skc[0].is_finite() || !d(0.0).add(&fx).sub(&d(knot.y)).abs().le(&bound) {
            fail!(
                "Segment<Poly{n}>{c:?}.integral(knot=({}, {})) = {:?}: its exact value at knot.x is {} instead of knot.y (allowed deviation {})",
                hex(knot.x), hex(knot.y), skc, fx.show(), bound.show()
            );
        }
    } else if !nums_eq(&skc, &fc) {
        // outside the value domain nothing but "same construction as the piece" can be judged; a difference there
        // is only labelled
        ctx.label("Segment::integral differs from piece-level outside the value domain");
    }
    Outcome::Pass
}

impl Prop for C07 {
    type Case = Case;
    fn id(&self) -> &'static str {
        "C07"
    }
    fn rule(&self) -> String {
        "case = (degree 0..=7 uniform, coefficient vector with cancellation patterns / wide exponents, all ordinates (coefficients and knot.y) times a common power of two 2^k, k=0 in 70% of cases else uniform in ±300, knot (x of any sign and magnitude incl. ±0 and subnormals, y any), evaluation points a,b, segment end; 1 case in 13 plants an exact relation: small-integer data with knot.y equal to plus or minus the indefinite integral at knot.x, or 0). Oracle: indefinite(): constant 0, coefficient i+1 within one ulp of c_i/(i+1) (bit-exact for divisors 1,2,4,8); integral(knot): same non-constant coefficients bit for bit, exact value of the returned polynomial at knot.x within (4(m+2)+2)u(|y|+S_I(x)) of knot.y, and the same through evaluate; F(b)-F(a) (library evaluate, difference taken exactly) vs the 384-bit integral Σc_i(b^(i+1)-a^(i+1))/(i+1); integral(k).derivative() coefficient-wise within one ulp of p; Segment::indefinite bit-identical to the piece-level call with end kept (constant 0, same quotients); Segment::integral(knot): end kept, vertical shift of the indefinite integral, through the knot within the same bound. Value clauses judged only when every term is within 2^±900 (else labelled). Non-trivial: degree>=1, >=2 non-zero coefficients, knot != (2,5).".into()
    }
    fn cases(&self, tier: Tier) -> u64 {
        tier.pick(800_000, 12_000_000)
    }
    fn strategy(&self, _tier: Tier) -> BoxedStrategy<Case> {
        let pt = || prop_oneof![6 => gen::moderate(30), 2 => gen::scaled(-60, 60), 2 => Just(0.0), 2 => Just(-0.0), 1 => gen::scaled(-1074, -900)];
        let general = (0u8..8, any::<u8>(), pt(), gen::moderate(60), pt(), pt(), gen::any_non_nan(), gen::common_scale(300))
            .prop_flat_map(|(deg, wide, kx, ky, a, b, end, sc)| {
                let emax = if wide % 4 == 0 { 150 } else { 30 };
                (gen::coeffs(deg as usize + 1, emax)).prop_map(move |c| Case {
                    deg,
                    c: c.into_iter().map(|v| B(v * sc)).collect(),
                    kx: B(kx),
                    ky: B(ky * sc),
                    a: B(a),
                    b: B(b),
                    end: B(end),
                })
            })
            .boxed();
        // exact relation between the knot and the polynomial: c_i = (i+1)·m_i with small integers m_i and an
        // integer knot.x, so that the indefinite integral at knot.x is an exact integer F0; knot.y = F0, -F0 or 0
        let related = (0u8..8, vec(-2i32..=2, 8), -3i32..=3, 0u8..3, -4i32..=4, -4i32..=4).prop_map(|(deg, m, kx, rel, a, b)| {
            let n = deg as usize + 1;
            let c: Vec<f64> = (0..n).map(|i| ((i + 1) as i32 * m[i]) as f64).collect();
            let f0: f64 = (0..n).map(|i| m[i] as f64 * (kx as f64).powi(i as i32 + 1)).sum();
            let ky = [f0, -f0, 0.0][rel as usize];
            Case { deg, c: c.into_iter().map(B).collect(), kx: B(kx as f64), ky: B(ky), a: B(a as f64), b: B(b as f64), end: B(1.0) }
        });
        prop_oneof![12 => general, 1 => related].boxed()
    }
    fn check(&self, case: &Case, ctx: &mut Ctx) -> Outcome {
        let deg = case.deg % 8;
        let c: Vec<f64> = case.c.iter().map(|b| b.0).collect();
        if c.len() != deg as usize + 1
            || c.iter().any(|v| !v.is_finite())
            || ![case.kx.0, case.ky.0, case.a.0, case.b.0].iter().all(|v| v.is_finite())
            || case.end.0.is_nan()
        {
            return Outcome::Skip("malformed case");
        }
        ctx.label(["deg0", "deg1", "deg2", "deg3", "deg4", "deg5", "deg6", "deg7"][deg as usize]);
        ctx.label(if case.kx.0 == 0.0 { "knot.x=0" } else if case.kx.0 < 0.0 { "knot.x<0" } else { "knot.x>0" });
        ctx.label(if case.ky.0 < 0.0 { "knot.y<0" } else { "knot.y>=0" });
        let nonzero = c.iter().filter(|v| **v != 0.0).count();
        ctx.nontrivial = deg >= 1 && nonzero >= 2 && !(case.kx.0 == 2.0 && case.ky.0 == 5.0);
        dispatch_deg7!(deg, check_k(case, &c, ctx))
    }
    fn size(&self, c: &Case) -> usize {
        c.c.len()
    }
}
