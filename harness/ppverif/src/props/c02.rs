//! C02 — piecewise evaluation selects the half-open segment containing x.

use super::common::*;
use crate::fl::{hex, same_bits, B};
use crate::gen;
use crate::model::select;
use crate::runner::{idx, Ctx, Outcome, Prop, Tier};
use crate::{fail, lib};
use arbitrary::Unstructured;
use piecewise_polynomial::*;
use proptest::collection::vec;
use proptest::prelude::*;
use serde::{Deserialize, Serialize};

#[derive(Clone, Debug, Hash, Serialize, Deserialize)]
pub struct Case {
    pub pw: PwSpec,
    pub x: B,
}

pub struct C02;

struct V<'a, 'b> {
    ends: &'a [f64],
    x: f64,
    ctx: &'a mut Ctx<'b>,
}
impl<'a, 'b> PwVisitor for V<'a, 'b> {
    type Out = Outcome;
    fn visit<T: Evaluate + Clone + std::fmt::Debug + 'static>(&mut self, pw: &Piecewise<T>, is_tag: bool) -> Outcome {
        let x = self.x;
        // the oracle uses the ends of the function that was actually built (composed kinds)
        let built_ends: Vec<f64> = pw.segments.iter().map(|s| s.end).collect();
        let _ = self.ends;
        let ends_ref: &[f64] = &built_ends;
        if ends_ref.is_empty() || ends_ref.iter().any(|e| e.is_nan()) || ends_ref.windows(2).any(|w| !(w[0] <= w[1])) {
            fail!("a library constructor returned a piecewise function whose breakpoints are not well-formed: {:?}", ends_ref);
        }
        let got = lib!(pw.evaluate(x));
        let i = select(ends_ref, x);
        let want = lib!(pw.segments[i].poly.evaluate(x));
        self.ctx.comparisons += 1;
        if !same_bits(got, want) {
            fail!(
                "Piecewise::evaluate({}) = {} but the first segment with end > x (else the last) is #{i} (ends {:?}) whose piece gives {}{}",
                hex(x),
                hex(got),
                ends_ref,
                hex(want),
                if is_tag { format!(" — tag pieces: library used segment #{got}") } else { String::new() }
            );
        }
        // (no separate "got == tag" assertion: what a constant piece returns for an argument outside C01's domain -
        // an infinite x, a non-positive argument of a Log piece - is not C02's business; distinct tags already make a
        // wrong selection visible in the comparison above)
        Outcome::Pass
    }
}

impl Prop for C02 {
    type Case = Case;
    fn id(&self) -> &'static str {
        "C02"
    }
    fn rule(&self) -> String {
        "case = (segment list: sorted multiset of 1..=L ends drawn from a small lattice incl. adjacent floats, ±0, ±inf, duplicates; pieces are tag constants Poly0(i), value pieces Poly1/Poly3/Log<Poly2>/IntOfLogPoly4, or the function is COMPOSED from other library operations on those ends (output of linear(), of constrained_spline(), of Piecewise<Log<Poly4>>::integral(), of &f + &g - the oracle then uses the ends of the function actually built); 1 list in 10 is long (up to 100+ segments); one non-NaN query from the list's alphabet: ends, ±1 ulp, midpoints, beyond both extremes, ±inf, ±MAX, ±0, random). Oracle: linear-scan selection model, result bits = selected piece evaluated directly. Non-trivial: >= 2 segments and x on an end, within one ulp of an end, or strictly inside the ends' range. Distinct by hash of (kind, ends, pool, x) bit patterns. Plus exhaustive scope: all sorted multisets of <= 5 (thorough 7) ends over two 5-point lattices x full alphabet.".into()
    }
    fn cases(&self, tier: Tier) -> u64 {
        tier.pick(1_500_000, 20_000_000)
    }
    fn strategy(&self, tier: Tier) -> BoxedStrategy<Case> {
        let l = tier.pick(8, 24);
        (pw_spec(l), any::<u16>(), vec(gen::any_non_nan(), 3))
            .prop_map(|(pw, q, extra)| {
                let ends = pw.ends_f();
                let a = gen::alphabet(&ends, &extra, false);
                let x = a[idx(q, a.len())];
                Case { pw, x: B(x) }
            })
            .boxed()
    }
    fn check(&self, c: &Case, ctx: &mut Ctx) -> Outcome {
        let ends = c.pw.ends_f();
        let x = c.x.0;
        if ends.is_empty() || ends.iter().any(|e| e.is_nan()) || ends.windows(2).any(|w| !(w[0] <= w[1])) {
            return Outcome::Skip("not well-formed");
        }
        if x.is_nan() {
            return Outcome::Skip("NaN query (C16's business)");
        }
        let cls = classify_query(&ends, x);
        ctx.label(cls);
        ctx.label(KIND_NAMES[(c.pw.kind % NKINDS) as usize]);
        if ends.len() == 1 {
            ctx.label("single-segment");
        }
        if has_duplicates(&ends) {
            ctx.label("duplicate-ends");
        }
        ctx.nontrivial = ends.len() >= 2 && matches!(cls, "q:on-end" | "q:one-ulp-from-end" | "q:interior");
        let mut v = V { ends: &ends, x, ctx };
        visit_pw(&c.pw, &mut v)
    }
    fn extras(&self, tier: Tier, _seed: u64, shard: u32, nshards: u32, sink: &mut dyn FnMut(Case, &'static str)) {
        let mut n = 0u32;
        let maxn = tier.pick(5, 7);
        for (li, lat) in [small_lattice(), vec![-1.0, 0.0, -0.0, 1.0, ppv_exact::next_up(1.0)]].iter().enumerate() {
            // second lattice lists 0.0 before -0.0 (equal under <=, both orders well-formed)
            let lists = enumerate_multisets(lat, maxn);
            for ends in lists {
                n += 1;
                if n % nshards != shard {
                    continue;
                }
                let alpha = gen::alphabet(&ends, &[0.5, -0.5, 2.0], false);
                for &x in &alpha {
                    let pw = PwSpec { kind: 0, ends: ends.iter().map(|&e| B(e)).collect(), pool: vec![] };
                    sink(Case { pw, x: B(x) }, if li == 0 { "small-scope(-0,+0)" } else { "small-scope(+0,-0)" });
                }
            }
        }
    }
    fn exhaustive_scopes(&self, tier: Tier) -> Vec<String> {
        vec![format!("all sorted multisets of 1..={} ends over {{-1,-0.0,0.0,1,nextup(1)}} (both orders of the signed zeros) x the full query alphabet of each list, tag pieces", tier.pick(5, 7))]
    }
    fn from_bytes(&self, u: &mut Unstructured) -> Option<Case> {
        let pw = pw_from_bytes(u, 12)?;
        let ends = pw.ends_f();
        let extra = [fuzz_f64(u)?, fuzz_f64(u)?];
        let a = gen::alphabet(&ends, &extra, false);
        let q: u16 = u.arbitrary().ok()?;
        Some(Case { pw, x: B(a[idx(q, a.len())]) })
    }
    fn size(&self, c: &Case) -> usize {
        c.pw.ends.len()
    }
}

/// byte decoders shared by the fuzz targets
pub fn fuzz_f64(u: &mut Unstructured) -> Option<f64> {
    let sel: u8 = u.arbitrary().ok()?;
    Some(match sel % 8 {
        0 => {
            let i: u8 = u.arbitrary().ok()?;
            gen::SMALL_SPECIALS[i as usize % gen::SMALL_SPECIALS.len()]
        }
        1 => {
            let i: u8 = u.arbitrary().ok()?;
            [f64::INFINITY, f64::NEG_INFINITY, f64::MAX, -f64::MAX, f64::MIN_POSITIVE, 5e-324, -0.0, 0.0][i as usize % 8]
        }
        2 | 3 => {
            let (e, m): (i8, u16) = u.arbitrary().ok()?;
            gen::compose(m & 1 == 1, (e as i32) / 4, 2, m as u64)
        }
        _ => {
            let b: u64 = u.arbitrary().ok()?;
            let f = f64::from_bits(b);
            if f.is_nan() {
                1.0
            } else {
                f
            }
        }
    })
}

pub fn pw_from_bytes(u: &mut Unstructured, max_len: usize) -> Option<PwSpec> {
    let kind: u8 = u.arbitrary().ok()?;
    let kind = if kind < 160 { 0 } else { kind % NKINDS };
    let lat_kind: u8 = u.arbitrary().ok()?;
    let n = 1 + (u.arbitrary::<u8>().ok()? as usize) % max_len;
    // lattice: either one of the fixed ones or values decoded from the input
    let mut custom = Vec::new();
    if lat_kind % 10 == 9 {
        let m = 1 + (u.arbitrary::<u8>().ok()? as usize) % 8;
        for _ in 0..m {
            custom.push(fuzz_f64(u)?);
        }
    } else {
        custom.push(1.0);
    }
    let mut ends = Vec::with_capacity(n);
    let lat = crate::gen::ends_lattice(lat_kind, &custom, false);
    for _ in 0..n {
        let p: u8 = u.arbitrary().ok()?;
        ends.push(lat[(p as usize * lat.len()) >> 8]);
    }
    ends.sort_by(|a, b| a.partial_cmp(b).unwrap());
    let mut pool = Vec::new();
    if kind != 0 {
        for _ in 0..7 {
            let f = fuzz_f64(u)?;
            pool.push(B(if f.is_finite() { f } else { 1.0 }));
        }
    }
    Some(PwSpec { kind, ends: ends.into_iter().map(B).collect(), pool })
}
