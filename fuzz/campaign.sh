#!/usr/bin/env bash
# ./fuzz/campaign.sh <Cxx> <stats.json> : one bounded libFuzzer campaign for the property's target.
# Writes stats (runs, corpus size, coverage features) to <stats.json>; crash artifacts are copied to
# /verif/replays and listed under "violations" (the plain binary replays them: ./check --replay-bytes).
# Exit 0 = campaign ran (with or without findings), 1 = no target / build problem (caller carries on without fuzz stats).
set -u
ROOT="$(cd "$(dirname "$0")/.." && pwd)"
ID="$1"; OUT="$2"
case "$ID" in
  C02) T=c02_select ;; C03) T=c03_history ;; C10) T=c10_quartic ;; C12) T=c12_batch ;; C13) T=c13_merge ;;
  C16) T=c16_nan_history ;; C17) T=c17_approx ;; C18) T=c18_serde ;; C19) T=c19_arbitrary ;;
  *) exit 1 ;;
esac
"$ROOT/fuzz/build.sh" || { echo "note: fuzz targets did not build; skipping the libFuzzer campaign for $ID" >&2; exit 1; }
BIN="$ROOT/fuzz/target/x86_64-unknown-linux-gnu/release/$T"
[ -x "$BIN" ] || exit 1
SEED="${VERIF_SEED:-1}"; [ "$SEED" = 0 ] && SEED=1
JOBS="${PPV_FUZZ_JOBS:-8}"
RUNS="${PPV_FUZZ_RUNS:-150000}"      # per job
MAXT="${PPV_FUZZ_MAXTIME:-300}"     # seconds per job: a slow oracle (C13: 384-bit arithmetic per case) ends the campaign early - fewer runs, never a violation
W="$ROOT/work/fuzz-$T-$$"
rm -rf "$W"; mkdir -p "$W/corpus" "$W/artifacts"
# fresh copy of the committed seed corpus
cp "$ROOT/fuzz/seeds/common/"* "$W/corpus/" 2>/dev/null
[ -d "$ROOT/fuzz/seeds/$T" ] && cp "$ROOT/fuzz/seeds/$T/"* "$W/corpus/" 2>/dev/null
export VERIF_ROOT="$ROOT"
export ASAN_OPTIONS="${ASAN_OPTIONS:-abort_on_error=1:detect_leaks=0}"
( cd "$W" && timeout -k 10 3000 "$BIN" corpus -runs="$RUNS" -max_total_time="$MAXT" -seed="$SEED" -len_control=0 -max_len=512 \
    -jobs="$JOBS" -workers="$JOBS" -print_final_stats=1 -artifact_prefix="$W/artifacts/" >"$W/driver.log" 2>&1 )
python3 - "$W" "$T" "$ID" "$OUT" "$ROOT" "$RUNS" "$JOBS" "$SEED" <<'PY'
import sys, os, re, json, glob, shutil
W, T, ID, OUT, ROOT, RUNS, JOBS, SEED = sys.argv[1:9]
execs = 0; cov = 0; ft = 0; logs = glob.glob(os.path.join(W, "fuzz-*.log"))
for l in logs:
    s = open(l, errors="replace").read()
    m = re.findall(r"stat::number_of_executed_units:\s*(\d+)", s)
    if m: execs += int(m[-1])
    m = re.findall(r"cov: (\d+) ft: (\d+)", s)
    if m:
        cov = max(cov, int(m[-1][0])); ft = max(ft, int(m[-1][1]))
viol = []
os.makedirs(os.path.join(ROOT, "replays"), exist_ok=True)
for a in sorted(glob.glob(os.path.join(W, "artifacts", "*"))):
    dst = os.path.join(ROOT, "replays", f"{ID}-fuzz-{os.path.basename(a)}")
    shutil.copy(a, dst); viol.append(dst)
msgs = []
for l in logs:
    for line in open(l, errors="replace"):
        if line.startswith("VIOLATION-IN-FUZZ"):
            msgs.append(line.strip()[:600])
json.dump({"engine": "libFuzzer (cargo-fuzz, ASan)", "target": T, "jobs": int(JOBS), "runs_per_job": int(RUNS), "seed": int(SEED),
           "executions": execs, "coverage_edges": cov, "coverage_features": ft,
           "final_corpus_files": len(os.listdir(os.path.join(W, "corpus"))),
           "violations": viol[:3], "violation_messages": msgs[:3],
           "replay": "./check --replay-bytes %s <artifact>" % ID}, open(OUT, "w"))
PY
rm -rf "$W"
exit 0
