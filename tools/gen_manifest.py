#!/usr/bin/env python3
"""Generates /verif/MANIFEST.json from the table below (single source of truth)."""
import json, os, sys
ROOT = os.path.dirname(os.path.dirname(os.path.abspath(__file__)))

# id -> (technique, level text, level_note, design_ref, engines)
CHECKS = {
 "C02": ("property-based testing (proptest) against a linear-scan selection model, bit-exact; exhaustive small scope; libFuzzer campaign in the thorough tier",
         "No violation among the generated (segment list, query) cases from a generator that makes on-end / one-ulp / duplicate-end / signed-zero / infinite configurations common, plus complete enumeration of all lists of <=4 ends over a 5-point lattice with their whole query alphabet. Exploration, not proof.",
         "Trusted: the 10-line selection model (cross-checked against a partition_point formulation in the self-test); calling the selected piece's evaluate directly to obtain the expected bits.",
         "DESIGN.md §4 C02"),
 "C03": ("model-based stateful property testing (proptest-generated query histories vs. stateless model), exhaustive short histories, breadth-first exploration of the evaluator's reachable hidden states via hook verif_state",
         "No violation among generated histories (backward jumps over several segments, landings on ends, last->first, repeats, +-inf) and, for each explored list and its alphabet, among ALL (reachable evaluator state, query) pairs - which covers histories of unbounded length over that alphabet for that list. Exploration over lists/alphabets.",
         "Trusted: selection model; hook verif_state exposes the complete hidden state (cursor offset, tail length, last argument bits).",
         "DESIGN.md §4 C03"),
 "C16": ("property-based testing with NaN/inf injected into query histories (same engine as C03, incl. state exploration with NaN in the alphabet) + generated 'operation soup' over the public API under catch_unwind with debug-assertions/overflow-checks on",
         "No panic and no post-NaN disagreement among generated histories and all (reachable state, query) pairs incl. 5 NaN payloads; no panic in generated sequences of every public operation on well-formed finite input. Exploration.",
         "Trusted: the hand-written enumeration of the public API (props/soup.rs); panics are observed via catch_unwind (panic=unwind build).",
         "DESIGN.md §4 C16"),
}

NOT_YET = {}  # id -> reason, filled from properties.jsonl for everything not in CHECKS

def main():
    props = [json.loads(l) for l in open(os.path.join(ROOT, "properties.jsonl"))]
    checks = []
    na = []
    for p in props:
        i = p["id"]
        if i in CHECKS:
            tech, text, note, ref = CHECKS[i]
            checks.append({
                "property_id": i,
                "quick_cmd": f"./check {i} quick",
                "thorough_cmd": f"./check {i} thorough",
                "evidence_file": f"/verif/evidence/{i}.json",
                "replay_cmd_template": f"./check --replay {i} {{path}}",
                "engine": "ppcheck",
                "level_claimed": {"category": "exploration", "text": text, "design_ref": ref},
                "level_note": note,
                "technique": tech,
            })
        else:
            na.append({"property_id": i, "reason": NOT_YET.get(i, "check not built yet (work in progress; the design for it is in DESIGN.md §4) - no claim is made")})
    m = {
        "version": 1,
        "setup_cmd": "./check --setup",
        "hooks": {
            "guard": "cargo feature `verif-hooks` of piecewise_polynomial",
            "enable": "the harness depends on piecewise_polynomial = { path = \"/repo\", features = [\"verif-hooks\"] }; every ./check rebuilds it from /repo's working tree",
            "baseline_off_cmd": "cd /repo && cargo test --workspace --no-fail-fast --offline",
            "source_commits": ["8b42894"],
            "add_only": True,
        },
        "engines": [
            {"name": "ppcheck", "path": "/verif/harness", "serves_properties": sorted(CHECKS),
             "kind_free_text": "Rust binary: sharded seed-deterministic proptest runners + exhaustive small scopes + exact dyadic / 384-bit big-float oracle (ppv-exact); writes evidence and shrunk replay files"},
        ],
        "checks": checks,
        "not_applicable": na,
        "notes": "See DESIGN.md. known_findings.txt lists open / fixed findings; regress/<id>/*.json are saved cases replayed on every run.",
    }
    json.dump(m, open(os.path.join(ROOT, "MANIFEST.json"), "w"), indent=1)
    print(f"{len(checks)} checks, {len(na)} not claimed")

if __name__ == "__main__":
    main()
