#!/usr/bin/env python3
"""Independent audit of the Rust numeric oracle (harness/ppv-exact + harness/ppverif/src/logint.rs,
props/spline.rs) — DESIGN.md §7 "Oracle audit".

Generates a few thousand inputs per oracle kind, asks the Rust side (`ppcheck oracle`) for the values it
would use as references, and recomputes them here with Python's `fractions` (exact) and `mpmath`
(500 bits). Exact kinds must agree exactly; rounded kinds to better than 2^-300 relative to the stated
magnitude. Exit 0 = agreement, 1 = disagreement (an ORACLE bug, never a property violation),
3 = interpreter/modules missing (the caller treats that as 'skipped').

usage: oracle_audit.py <path to ppcheck> [n_per_kind] [seed]
"""
import sys, json, subprocess, random, struct

try:
    from fractions import Fraction as Fr
    import mpmath as mp
except Exception as e:  # pragma: no cover
    print("audit skipped: %s" % e)
    sys.exit(3)

mp.mp.prec = 600
BIN = sys.argv[1] if len(sys.argv) > 1 else "/verif/harness/target/release/ppcheck"
N = int(sys.argv[2]) if len(sys.argv) > 2 else 400
random.seed(int(sys.argv[3]) if len(sys.argv) > 3 else 1)


def bits(x):
    return "0x%016x" % struct.unpack("<Q", struct.pack("<d", x))[0]


def fr(x):
    return Fr(*x.as_integer_ratio())


def rnd_float(emax=30, allow_zero=True):
    if allow_zero and random.random() < 0.1:
        return 0.0
    m = random.choice([1.0, 1.5, random.random() + 1.0, random.randrange(1, 1 << 20) / float(1 << 19)])
    e = random.randint(-emax, emax)
    s = random.choice([-1.0, 1.0])
    return s * m * 2.0 ** e


def dy(s):
    """parse the Rust side's exact dyadic 'sign mant exp'"""
    sg, m, e = s.split()
    v = Fr(int(m)) * (Fr(2) ** int(e))
    return -v if sg == "-" else v


def ask(reqs):
    p = subprocess.run([BIN, "oracle"], input="\n".join(json.dumps(r) for r in reqs) + "\n", capture_output=True, text=True)
    if p.returncode != 0:
        print("ppcheck oracle failed:", p.stderr[:2000])
        sys.exit(1)
    out = [json.loads(l) for l in p.stdout.splitlines() if l.strip()]
    assert len(out) == len(reqs), (len(out), len(reqs))
    return out


def mpf_of(fraction):
    return mp.mpf(fraction.numerator) / mp.mpf(fraction.denominator)


def close(rust_fraction, ref, scale, what, tol_bits=300):
    """|rust - ref| <= 2^-tol_bits * scale"""
    r = mpf_of(rust_fraction)
    if abs(r - ref) > mp.ldexp(1, -tol_bits) * abs(scale) + mp.ldexp(1, -2000):
        print("DISAGREEMENT %s: rust=%s ref=%s scale=%s" % (what, mp.nstr(r, 30), mp.nstr(ref, 30), mp.nstr(scale, 5)))
        return False
    return True


bad = 0
total = 0

# ---- exact polynomial value and magnitude sum -------------------------------------------------
reqs = []
for _ in range(N):
    n = random.randint(0, 12)
    c = [rnd_float(60) for _ in range(n)]
    x = rnd_float(20)
    reqs.append({"kind": "poly", "c": [bits(v) for v in c], "x": bits(x), "_c": c, "_x": x})
for r, o in zip(reqs, ask([{k: v for k, v in r.items() if not k.startswith("_")} for r in reqs])):
    p = sum((fr(ci) * fr(r["_x"]) ** i for i, ci in enumerate(r["_c"])), Fr(0))
    s = sum((abs(fr(ci)) * abs(fr(r["_x"])) ** i for i, ci in enumerate(r["_c"])), Fr(0))
    total += 2
    if dy(o["p"]) != p or dy(o["s"]) != s:
        print("DISAGREEMENT poly", r["_c"], r["_x"], o)
        bad += 1

# ---- ln, exp, x^5 R(x) --------------------------------------------------------------------------
reqs = []
for i in range(N):
    v = random.choice([1.0 + (random.randrange(-4096, 4096)) * 2.0 ** -52, 2.0 ** random.randint(-1070, 1020) * (1 + random.random()), random.uniform(0.5, 2.0), 10.0 ** random.uniform(-300, 300), 5e-324 * random.randrange(1, 1 << 40)])
    x = random.choice([random.uniform(-40, 40), random.uniform(-2, 2), random.uniform(-700, 700), 2.0 ** -random.randint(1, 70) * random.choice([-1, 1])])
    reqs.append({"kind": "transc", "v": bits(v), "x": bits(x), "_v": v, "_x": x})
for r, o in zip(reqs, ask([{k: v for k, v in r.items() if not k.startswith("_")} for r in reqs])):
    v, x = mp.mpf(r["_v"]), mp.mpf(r["_x"])
    total += 3
    lnv = mp.log(v)
    ok = close(dy(o["ln_v"]), lnv, max(abs(lnv), mp.mpf(2) ** -1080), "ln(%r)" % r["_v"])
    ok &= close(dy(o["exp_x"]), mp.exp(x), mp.exp(x), "exp(%r)" % r["_x"])
    t4 = sum(x ** j / mp.factorial(j) for j in range(5))
    x5r = mp.exp(x) - t4 if abs(x) > 2 else mp.nsum(lambda m: x ** (m + 5) / mp.factorial(m + 5), [0, mp.inf])
    ok &= close(dy(o["x5r"]), x5r, abs(x5r), "x5r(%r)" % r["_x"], 290)
    bad += 0 if ok else 1

# ---- log-polynomial integral G(b)-G(a) and majorant -------------------------------------------
reqs = []
for i in range(max(40, N // 8)):
    n = random.randint(1, 9)
    p = [rnd_float(8) for _ in range(n)]
    a, b = 10.0 ** random.uniform(-2, 2), 10.0 ** random.uniform(-2, 2)
    reqs.append({"kind": "logint", "p": [bits(v) for v in p], "a": bits(a), "b": bits(b), "_p": p, "_a": a, "_b": b})
mp.mp.prec = 400
for r, o in zip(reqs, ask([{k: v for k, v in r.items() if not k.startswith("_")} for r in reqs])):
    p, a, b = [mp.mpf(c) for c in r["_p"]], mp.mpf(r["_a"]), mp.mpf(r["_b"])
    # independent route: substitute s = ln t, integrate p(s) e^s over [ln a, ln b] by Gauss-Legendre at 400 bits
    f = lambda s: mp.polyval(p[::-1], s) * mp.exp(s)
    ref = mp.quad(f, mp.linspace(mp.log(a), mp.log(b), 9))
    maj = mpf_of(dy(o["maj_a"]) + dy(o["maj_b"]))
    total += 1
    if not close(dy(o["integral"]), ref, maj, "logint %r [%r,%r]" % (r["_p"], r["_a"], r["_b"]), 200):
        bad += 1
    # majorant really dominates the antiderivative's terms: |G(t)| <= M(t)
    total += 1
    if abs(mpf_of(dy(o["g_b"]))) > mpf_of(dy(o["maj_b"])) * (1 + mp.mpf(2) ** -40):
        print("MAJORANT TOO SMALL", r["_p"], r["_b"])
        bad += 1
mp.mp.prec = 600

# ---- quartic form value / magnitude sum ---------------------------------------------------------
reqs = []
for i in range(N):
    nums = [rnd_float(12) for _ in range(6)]
    v = random.choice([random.uniform(0.8, 1.2), mp.exp(random.uniform(-40, 40)).__float__(), 1.0 + random.randrange(-4096, 4096) * 2.0 ** -52, 10.0 ** random.uniform(-290, 290)])
    reqs.append({"kind": "quartic", "nums": [bits(t) for t in nums], "v": bits(v), "_n": nums, "_v": v})
for r, o in zip(reqs, ask([{k: v for k, v in r.items() if not k.startswith("_")} for r in reqs])):
    k, c, u, v = r["_n"][0], r["_n"][1:5], r["_n"][5], mp.mpf(r["_v"])
    x = -mp.log(v)
    t4 = sum(x ** j / mp.factorial(j) for j in range(5))
    x5r = mp.exp(x) - t4 if abs(x) > 2 else mp.nsum(lambda m: x ** (m + 5) / mp.factorial(m + 5), [0, mp.inf])
    terms = [mp.mpf(k)] + [v * mp.mpf(c[j]) * x ** (j + 1) for j in range(4)] + [mp.mpf(u) * v * x5r]
    e, m = sum(terms), sum(abs(t) for t in terms)
    total += 2
    ok = close(dy(o["e"]), e, m, "quartic E %r %r" % (r["_n"], r["_v"]), 280)
    ok &= close(dy(o["m"]), m, m, "quartic M", 280)
    bad += 0 if ok else 1

# ---- exact Kruger spline ----------------------------------------------------------------------
reqs = []
for i in range(max(60, N // 4)):
    n = random.randint(3, 9)
    x = rnd_float(6)
    xs = [x]
    for _ in range(n - 1):
        x = x + abs(rnd_float(4, False))
        xs.append(x)
    if any(b <= a for a, b in zip(xs, xs[1:])):
        continue
    ys = [random.choice([rnd_float(6), float(random.randint(-3, 3))]) for _ in range(n)]
    reqs.append({"kind": "spline", "xs": [bits(t) for t in xs], "ys": [bits(t) for t in ys], "_x": xs, "_y": ys})


def kruger(xs, ys):
    X, Y = [fr(t) for t in xs], [fr(t) for t in ys]
    n = len(X)
    s = [(Y[i + 1] - Y[i]) / (X[i + 1] - X[i]) for i in range(n - 1)]
    m = [Fr(0)] * n
    for i in range(1, n - 1):
        m[i] = Fr(0) if s[i - 1] * s[i] <= 0 else 2 / (1 / s[i - 1] + 1 / s[i])
    m[0] = Fr(3, 2) * s[0] - m[1] / 2
    m[n - 1] = Fr(3, 2) * s[n - 2] - m[n - 2] / 2
    out = []
    for i in range(n - 1):
        x0, x1, y0 = X[i], X[i + 1], Y[i]
        h = x1 - x0
        f0dd = 2 * (3 * s[i] - (m[i + 1] + 2 * m[i])) / h
        f1dd = 2 * ((2 * m[i + 1] + m[i]) - 3 * s[i]) / h
        d = (f1dd - f0dd) / (6 * h)
        c = (x1 * f0dd - x0 * f1dd) / (2 * h)
        b = s[i] - c * (x1 + x0) - d * (x1 * x1 + x1 * x0 + x0 * x0)
        a = y0 - b * x0 - c * x0 * x0 - d * x0 ** 3
        out.append([a, b, c, d])
    return out, m


for r, o in zip(reqs, ask([{k: v for k, v in r.items() if not k.startswith("_")} for r in reqs])):
    coef, m = kruger(r["_x"], r["_y"])
    for i, (cs, sh) in enumerate(zip(o["coef"], o["shadow"])):
        for j in range(4):
            total += 1
            ref = mpf_of(coef[i][j])
            scale = mpf_of(dy(sh[j]))
            if not close(dy(cs[j]), ref, scale, "spline coef %d.%d x=%r y=%r" % (i, j, r["_x"], r["_y"]), 280):
                bad += 1
            if abs(ref) > scale * (1 + mp.mpf(2) ** -40):
                print("SHADOW SMALLER THAN COEFFICIENT", i, j, r["_x"], r["_y"])
                bad += 1

print("oracle audit: %d values compared, %d disagreement(s)" % (total, bad))
sys.exit(1 if bad else 0)
