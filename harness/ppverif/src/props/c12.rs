//! C12 — batch evaluation of non-decreasing arguments equals pointwise evaluation.

use super::c02::{fuzz_f64, pw_from_bytes};
use super::common::*;
use crate::fl::{hex, same_bits, B};
use crate::gen;
use crate::model::select;
use crate::runner::{Ctx, Outcome, Prop, Tier};
use crate::{fail, lib};
use arbitrary::Unstructured;
use piecewise_polynomial::*;
use proptest::collection::vec;
use proptest::prelude::*;
use serde::{Deserialize, Serialize};
use std::cell::Cell;
use std::rc::Rc;

#[derive(Clone, Debug, Hash, Serialize, Deserialize)]
pub struct Case {
    pub pw: PwSpec,
    pub xs: Vec<B>,
}

pub struct C12;

struct Counting<I> {
    inner: I,
    pulled: Rc<Cell<usize>>,
}
impl<I: Iterator<Item = f64>> Iterator for Counting<I> {
    type Item = f64;
    fn next(&mut self) -> Option<f64> {
        let r = self.inner.next();
        if r.is_some() {
            self.pulled.set(self.pulled.get() + 1);
        }
        r
    }
    fn size_hint(&self) -> (usize, Option<usize>) {
        self.inner.size_hint()
    }
}

struct V<'a, 'b> {
    ends: &'a [f64],
    xs: &'a [f64],
    ctx: &'a mut Ctx<'b>,
}
impl<'a, 'b> PwVisitor for V<'a, 'b> {
    type Out = Outcome;
    fn visit<T: Evaluate + Clone + std::fmt::Debug + 'static>(&mut self, pw: &Piecewise<T>, is_tag: bool) -> Outcome {
        // the oracle uses the ends of the function that was actually built (composed kinds)
        let built_ends: Vec<f64> = pw.segments.iter().map(|s| s.end).collect();
        let _ = self.ends;
        let ends_b: &[f64] = &built_ends;
        if ends_b.is_empty() || ends_b.iter().any(|e| e.is_nan()) || ends_b.windows(2).any(|w| !(w[0] <= w[1])) {
            fail!("a library constructor returned a piecewise function whose breakpoints are not well-formed: {:?}", ends_b);
        }
        let xs = self.xs;
        let sorted = xs.windows(2).all(|w| w[0] <= w[1]);
        // laziness + order + length, pulling one output at a time
        let pulled = Rc::new(Cell::new(0usize));
        let input = Counting { inner: xs.to_vec().into_iter(), pulled: pulled.clone() };
        let mut it = lib!(pw.evaluate_v(input));
        // "lazily": at most one argument of look-ahead is tolerated (a peeking implementation is still lazy)
        if pulled.get() > 1 {
            fail!("evaluate_v consumed {} inputs before any output was requested (not lazy)", pulled.get());
        }
        let mut out = Vec::with_capacity(xs.len());
        for j in 0..xs.len() {
            let v = lib!(it.next());
            match v {
                None => fail!("evaluate_v stopped after {j} outputs for {} arguments", xs.len()),
                Some(y) => out.push(y),
            }
            if pulled.get() < j + 1 || pulled.get() > j + 2 {
                fail!("after pulling {} outputs evaluate_v has consumed {} inputs (not lazy / not in step)", j + 1, pulled.get());
            }
        }
        if lib!(it.next()).is_some() {
            fail!("evaluate_v yields more outputs than arguments");
        }
        drop(it);
        // the same arguments as a plain Vec (exact size_hint) and through an adaptor with an unknown size
        // must give the same bits: the answer may not depend on what the input iterator says about its length
        let via_vec: Vec<f64> = lib!(pw.evaluate_v(xs.to_vec()).collect());
        let via_unsized: Vec<f64> = lib!(pw.evaluate_v(xs.to_vec().into_iter().filter(|_| true)).collect());
        for (name, v) in [("Vec", &via_vec), ("filter adaptor", &via_unsized)] {
            if v.len() != out.len() || v.iter().zip(&out).any(|(a, b)| !same_bits(*a, *b)) {
                fail!("evaluate_v over the same arguments gives different results depending on the input iterator: as {name} {:?}, pulled one at a time {:?}; ends {:?}, arguments {:?}", v, out, ends_b, xs);
            }
        }
        // the RESULT iterator consumed through skip / step_by / nth must yield the same values
        if xs.len() >= 2 {
            let sk: Vec<f64> = lib!(pw.evaluate_v(xs.to_vec()).skip(1).collect());
            let st: Vec<f64> = lib!(pw.evaluate_v(xs.to_vec()).step_by(2).collect());
            let nl: Option<f64> = lib!(pw.evaluate_v(xs.to_vec()).nth(xs.len() - 1));
            let sk_want: Vec<f64> = out.iter().skip(1).cloned().collect();
            let st_want: Vec<f64> = out.iter().step_by(2).cloned().collect();
            let same = |a: &[f64], b: &[f64]| a.len() == b.len() && a.iter().zip(b).all(|(x, y)| same_bits(*x, *y));
            if !same(&sk, &sk_want) || !same(&st, &st_want) || !nl.map_or(false, |v| same_bits(v, out[out.len() - 1])) {
                fail!("evaluate_v consumed through skip(1) / step_by(2) / nth(last) gives {:?} / {:?} / {:?} but pulled one at a time {:?}; ends {:?}, arguments {:?}", sk, st, nl, out, ends_b, xs);
            }
        }
        // values
        let mut m = f64::NEG_INFINITY;
        for (i, &x) in xs.iter().enumerate() {
            if x > m {
                m = x;
            }
            let seg = select(ends_b, m);
            let want = lib!(pw.segments[seg].poly.evaluate(x));
            self.ctx.comparisons += 1;
            if !same_bits(out[i], want) {
                fail!(
                    "evaluate_v output #{i} for x={} is {} but the segment direct evaluation selects for the running maximum {} is #{seg}, giving {}{}; ends {:?}, arguments {:?}",
                    hex(x), hex(out[i]), hex(m), hex(want), if is_tag { " (tag pieces: value = segment used)" } else { "" }, ends_b, xs
                );
            }
            if sorted {
                let direct = lib!(pw.evaluate(x));
                self.ctx.comparisons += 1;
                if !same_bits(out[i], direct) {
                    fail!("non-decreasing arguments: evaluate_v output #{i} for x={} is {} but Piecewise::evaluate gives {}; ends {:?}, arguments {:?}", hex(x), hex(out[i]), hex(direct), ends_b, xs);
                }
            }
        }
        Outcome::Pass
    }
}

fn check_case(c: &Case, ctx: &mut Ctx) -> Outcome {
    let ends = c.pw.ends_f();
    let xs: Vec<f64> = c.xs.iter().map(|b| b.0).collect();
    if ends.is_empty() || ends.iter().any(|e| e.is_nan()) || ends.windows(2).any(|w| !(w[0] <= w[1])) {
        return Outcome::Skip("not well-formed");
    }
    if xs.iter().any(|x| x.is_nan()) {
        return Outcome::Skip("NaN argument (C16's business)");
    }
    let sorted = xs.windows(2).all(|w| w[0] <= w[1]);
    ctx.label(if sorted { "non-decreasing" } else { "arbitrary-order" });
    ctx.label(KIND_NAMES[(c.pw.kind % NKINDS) as usize]);
    if has_duplicates(&ends) {
        ctx.label("duplicate-ends");
    }
    let segs: Vec<usize> = xs.iter().map(|&x| select(&ends, x)).collect();
    let crosses = segs.windows(2).any(|w| w[0] != w[1]);
    let hits = xs.iter().any(|x| ends.iter().any(|e| e == x));
    if hits {
        ctx.label("hits-an-end");
    }
    if xs.iter().any(|&x| !ends.iter().any(|&e| e > x)) {
        ctx.label("falls-back-to-last");
    }
    if !sorted {
        // decreasing step after reaching the last segment
        let mut m = f64::NEG_INFINITY;
        for &x in &xs {
            if x < m && select(&ends, m) == ends.len() - 1 {
                ctx.label("decrease-after-last-segment");
            }
            if x > m {
                m = x;
            }
        }
    }
    ctx.nontrivial = ends.len() >= 2 && (crosses || hits) && !xs.is_empty();
    let mut v = V { ends: &ends, xs: &xs, ctx };
    visit_pw(&c.pw, &mut v)
}

impl Prop for C12 {
    type Case = Case;
    fn id(&self) -> &'static str {
        "C12"
    }
    fn rule(&self) -> String {
        "case = (segment list as in C02, sequence of 0..=60 (thorough 300) non-NaN arguments from the list's alphabet built from steps (absolute, relative, repeat, first/last, onto an end); half the cases sorted non-decreasing (with repeats), half arbitrary order). Oracle: output i must have the bits of segments[select(ends, max(xs[..=i]))].poly.evaluate(xs[i]) (selection model on the running maximum) and, for non-decreasing sequences, of Piecewise::evaluate(xs[i]); same length and order, identical results whether the arguments arrive as a Vec (exact size_hint), through an adaptor of unknown size, or are pulled one at a time; laziness: the input is wrapped in a counting iterator; after pulling j outputs j (or, tolerating one argument of look-ahead, j+1) inputs have been consumed. Non-trivial: >=2 segments and the sequence crosses a breakpoint or hits an end exactly. Extra: all sequences of length 3 over the full alphabet for all sorted multisets of <=3 ends over the 5-point lattice.".into()
    }
    fn cases(&self, tier: Tier) -> u64 {
        tier.pick(600_000, 6_000_000)
    }
    fn strategy(&self, tier: Tier) -> BoxedStrategy<Case> {
        (pw_spec(tier.pick(8, 24)), vec(step(), 0..=tier.pick(60, 300)), vec(gen::any_non_nan(), 3), any::<bool>())
            .prop_map(|(pw, steps, extra, sort)| {
                let ends = pw.ends_f();
                let a = gen::alphabet(&ends, &extra, false);
                let mut xs = resolve_steps(&a, &ends, &steps);
                if sort {
                    xs.sort_by(|a, b| a.partial_cmp(b).unwrap());
                }
                Case { pw, xs: xs.into_iter().map(B).collect() }
            })
            .boxed()
    }
    fn check(&self, c: &Case, ctx: &mut Ctx) -> Outcome {
        check_case(c, ctx)
    }
    fn extras(&self, tier: Tier, _seed: u64, shard: u32, nshards: u32, sink: &mut dyn FnMut(Case, &'static str)) {
        let lists = enumerate_multisets(&small_lattice(), 3);
        let mut n = 0u32;
        for ends in &lists {
            n += 1;
            if n % nshards != shard {
                continue;
            }
            let alpha = gen::alphabet(ends, &[0.5], false);
            let spec = PwSpec { kind: 0, ends: ends.iter().map(|&e| B(e)).collect(), pool: vec![] };
            let m = alpha.len();
            for i in 0..m {
                for j in 0..m {
                    for k in 0..m {
                        if tier == Tier::Thorough {
                            for l in 0..m {
                                sink(Case { pw: spec.clone(), xs: vec![B(alpha[i]), B(alpha[j]), B(alpha[k]), B(alpha[l])] }, "short-sequences");
                            }
                        } else {
                            sink(Case { pw: spec.clone(), xs: vec![B(alpha[i]), B(alpha[j]), B(alpha[k])] }, "short-sequences");
                        }
                    }
                }
            }
        }
    }
    fn exhaustive_scopes(&self, _tier: Tier) -> Vec<String> {
        vec!["all argument sequences of length 3 (thorough tier: 4; prefixes cover the shorter ones) over the full alphabet, for all sorted multisets of 1..=3 ends over {-1,-0.0,0.0,1,nextup(1)}".into()]
    }
    fn from_bytes(&self, u: &mut Unstructured) -> Option<Case> {
        let pw = pw_from_bytes(u, 10)?;
        let ends = pw.ends_f();
        let extra = [fuzz_f64(u)?];
        let a = gen::alphabet(&ends, &extra, false);
        let n = (u.arbitrary::<u8>().ok()? as usize) % 40;
        let sort: bool = u.arbitrary().ok()?;
        let mut xs = Vec::with_capacity(n);
        for _ in 0..n {
            let i: u16 = u.arbitrary().ok()?;
            xs.push(a[crate::runner::idx(i, a.len())]);
        }
        if sort {
            xs.sort_by(|a, b| a.partial_cmp(b).unwrap());
        }
        Some(Case { pw, xs: xs.into_iter().map(B).collect() })
    }
    fn size(&self, c: &Case) -> usize {
        c.xs.len() * 100 + c.pw.ends.len()
    }
}
