//! `B`: an `f64` that hashes / compares / serializes by bit pattern, so that
//! generated cases can be hashed (distinct counting), written to replay files
//! without loss (NaN payloads, -0.0, subnormals) and read back.

use serde::{Deserialize, Deserializer, Serialize, Serializer};
use std::fmt;
use std::hash::{Hash, Hasher};

#[derive(Clone, Copy, Default)]
pub struct B(pub f64);

impl B {
    #[inline]
    pub fn get(self) -> f64 {
        self.0
    }
}
impl From<f64> for B {
    fn from(x: f64) -> B {
        B(x)
    }
}
impl PartialEq for B {
    fn eq(&self, o: &B) -> bool {
        self.0.to_bits() == o.0.to_bits()
    }
}
impl Eq for B {}
impl Hash for B {
    fn hash<H: Hasher>(&self, h: &mut H) {
        self.0.to_bits().hash(h)
    }
}
impl fmt::Debug for B {
    fn fmt(&self, f: &mut fmt::Formatter<'_>) -> fmt::Result {
        write!(f, "{:e}", self.0)
    }
}
impl Serialize for B {
    fn serialize<S: Serializer>(&self, s: S) -> Result<S::Ok, S::Error> {
        // "0x<bits> <decimal>": the bits are authoritative, the decimal is for the reader
        s.serialize_str(&format!("0x{:016x} {:e}", self.0.to_bits(), self.0))
    }
}
impl<'de> Deserialize<'de> for B {
    fn deserialize<D: Deserializer<'de>>(d: D) -> Result<B, D::Error> {
        let s = String::deserialize(d)?;
        let tok = s.split_whitespace().next().unwrap_or("");
        let hex = tok.strip_prefix("0x").ok_or_else(|| serde::de::Error::custom("expected 0x.."))?;
        let bits = u64::from_str_radix(hex, 16).map_err(serde::de::Error::custom)?;
        Ok(B(f64::from_bits(bits)))
    }
}

pub fn bs(v: &[f64]) -> Vec<B> {
    v.iter().map(|&x| B(x)).collect()
}
pub fn fs(v: &[B]) -> Vec<f64> {
    v.iter().map(|x| x.0).collect()
}

/// "bits equal" for results; treats every NaN as equal to every NaN (the
/// library's result for NaN-producing inputs is not pinned to a payload).
pub fn same_bits(a: f64, b: f64) -> bool {
    a.to_bits() == b.to_bits() || (a.is_nan() && b.is_nan())
}

pub fn hex(x: f64) -> String {
    format!("{:e}[0x{:016x}]", x, x.to_bits())
}
