//! Reference mathematics of the log-polynomial integrals (C09, C10, C11, C13),
//! independent of the library's recurrences and of libm.

use crate::num::*;
use ppv_exact::{d, Bf, Dy};
use std::cmp::Ordering;

pub fn fact(n: u64) -> u64 {
    (1..=n).product()
}

/// Q_j = Σ_{i>=j} p_i (-1)^(i-j) i!/j!  — from ∫ s^i e^s ds = e^s Σ_j (-1)^(i-j) (i!/j!) s^j,
/// so that d/dt [ t·Q(ln t) ] = p(ln t). Exact.
pub fn q_exact(p: &[f64]) -> Vec<Dy> {
    let n = p.len();
    (0..n)
        .map(|j| {
            let mut acc = Dy::zero();
            for i in j..n {
                let f = fact(i as u64) / fact(j as u64);
                let term = d(p[i]).mul_u64(f);
                acc = if (i - j) % 2 == 0 { acc.add(&term) } else { acc.sub(&term) };
            }
            acc
        })
        .collect()
}
/// Q̄_j = Σ_{i>=j} |p_i| i!/j!  (what the recurrence q_i = p_i - (i+1)q_(i+1) can at most produce)
pub fn q_bar(p: &[f64]) -> Vec<Dy> {
    let n = p.len();
    (0..n)
        .map(|j| {
            let mut acc = Dy::zero();
            for i in j..n {
                let f = fact(i as u64) / fact(j as u64);
                acc = acc.add(&d(p[i]).abs().mul_u64(f));
            }
            acc
        })
        .collect()
}

/// G(t) = t · Q(ln t), an antiderivative of p(ln t)
pub fn g_of(q: &[Dy], t: f64) -> Bf {
    let l = Bf::from_f64(t).ln();
    let mut acc = Bf::zero();
    for qj in q.iter().rev() {
        acc = acc.mul(&l).add(&Bf::from_dy(qj));
    }
    acc.mul(&Bf::from_f64(t))
}

/// ∫_a^b p(ln t) dt for a, b > 0
pub fn log_integral(p: &[f64], a: f64, b: f64) -> Bf {
    let q = q_exact(p);
    g_of(&q, b).sub(&g_of(&q, a))
}

/// M(t) = t · Σ_j Q̄_j |ln t|^j, with |ln t| rounded up to an f64 (exact dyadic result)
pub fn log_majorant(p: &[f64], t: f64) -> Dy {
    let qb = q_bar(p);
    let l = Bf::from_f64(t).ln();
    let lup = d(f64_above(&l));
    let mut acc = Dy::zero();
    for qj in qb.iter().rev() {
        acc = acc.mul(&lup).add(qj);
    }
    acc.mul(&d(t))
}

/// x^5 R(x) = e^x - Σ_{j<5} x^j/j! = Σ_{m>=0} x^(m+5)/(m+5)!
pub fn x5r(x: &Bf) -> Bf {
    if x.is_zero() {
        return Bf::zero();
    }
    if x.0.top() <= 0 {
        // |x| < 2: series
        x5r_series(x)
    } else {
        x5r_closed(x)
    }
}
pub fn x5r_series(x: &Bf) -> Bf {
    // term_m = x^(m+5)/(m+5)!
    let mut term = x.powi(5).div_u64(120);
    let mut sum = term.clone();
    let mut m = 5u64;
    loop {
        m += 1;
        term = term.mul(x).div_u64(m);
        if term.is_zero() {
            break;
        }
        sum = sum.add(&term);
        if term.0.top() < sum.0.top() - 400 || m > 2000 {
            break;
        }
    }
    sum
}
pub fn x5r_closed(x: &Bf) -> Bf {
    let mut t4 = Bf::one();
    let mut term = Bf::one();
    for j in 1..5u64 {
        term = term.mul(x).div_u64(j);
        t4 = t4.add(&term);
    }
    x.exp().sub(&t4)
}

/// 1e-12 (truncated at 384 bits, i.e. a hair below 1e-12)
pub fn tol_1e12() -> Bf {
    Bf::one().div_u64(1_000_000_000_000)
}

/// Value and magnitude sum of the quartic log-integral form at v > 0:
/// E = k + v Σ c_j x^j + u v x^5 R(x),  M = |k| + Σ |v c_j x^j| + |u v x^5 R(x)|,  x = -ln v
pub fn quartic_value(k: f64, c: &[f64; 4], u: f64, v: f64) -> (Bf, Bf) {
    let vb = Bf::from_f64(v);
    let x = vb.ln().neg();
    let mut e = Bf::from_f64(k);
    let mut m = Bf::from_f64(k).abs();
    let mut xp = Bf::one();
    for j in 0..4 {
        xp = xp.mul(&x);
        let term = vb.mul(&Bf::from_f64(c[j])).mul(&xp);
        m = m.add(&term.abs());
        e = e.add(&term);
    }
    let tail = Bf::from_f64(u).mul(&vb).mul(&x5r(&x));
    m = m.add(&tail.abs());
    e = e.add(&tail);
    (e, m)
}

/// Magnitude majorant of the quartic construction from the integrand p0..p4
/// ("shadow" of a=-p0, b=(a+p1)/2, c=(b-p2)/3, d=(c+p3)/4, u=(d-p4)·24) at t > 0.
pub fn quartic_shadow_majorant(p: &[f64], t: f64) -> Bf {
    let ab = Bf::from_f64(p[0]).abs();
    let bb = ab.add(&Bf::from_f64(p[1]).abs()).div_u64(2);
    let cb = bb.add(&Bf::from_f64(p[2]).abs()).div_u64(3);
    let db = cb.add(&Bf::from_f64(p[3]).abs()).div_u64(4);
    let ub = db.add(&Bf::from_f64(p[4]).abs()).mul_i64(24);
    let tb = Bf::from_f64(t);
    let x = tb.ln().neg().abs();
    let poly = ab.mul(&x).add(&bb.mul(&x.powi(2))).add(&cb.mul(&x.powi(3))).add(&db.mul(&x.powi(4)));
    // |x^5 R(x)| at the signed x
    let xs = tb.ln().neg();
    let tail = ub.mul(&x5r(&xs).abs());
    tb.mul(&poly.add(&tail))
}

/// Self-test: series vs closed form of x^5R on [1,3], and G against Gauss–Legendre quadrature.
pub fn self_test() -> Vec<String> {
    let mut errs = Vec::new();
    for i in 0..40 {
        let x = 1.0 + i as f64 * 0.05;
        for sx in [x, -x] {
            let xb = Bf::from_f64(sx);
            let a = x5r_series(&xb);
            let b = x5r_closed(&xb);
            let diff = a.sub(&b).abs();
            if diff.cmp(&a.abs().mul_pow2(-300)) == Ordering::Greater {
                errs.push(format!("x5r series/closed disagree at {sx}"));
            }
        }
    }
    // R(0.5)·... spot value: x^5 R(x) at x=1 is e - 65/24
    let one = x5r(&Bf::one()).to_f64();
    if (one - (std::f64::consts::E - 65.0 / 24.0)).abs() > 1e-15 {
        errs.push(format!("x5r(1) = {one}"));
    }
    // quadrature cross-check of G(b)-G(a): composite 5-point Gauss-Legendre in f64 on p(ln t)
    let nodes = [0.0, 0.5384693101056831, -0.5384693101056831, 0.906179845938664, -0.906179845938664];
    let weights = [0.5688888888888889, 0.47862867049936647, 0.47862867049936647, 0.23692688505618908, 0.23692688505618908];
    let ps: [&[f64]; 4] = [&[2.0, 3.0], &[1.0, -2.0, 0.5, 0.25, -0.125], &[0.0, 0.0, 0.0, 0.0, 0.0, 0.0, 0.0, 0.0, 1.0], &[3.0, 1.0, 4.0, 1.0, -5.0, 9.0, -2.0, 6.0, 0.5]];
    for p in ps {
        for &(a, b) in &[(1.0f64, 2.718281828459045), (0.5, 3.0), (2.0, 0.25), (1.0, 1.5)] {
            let exact = log_integral(p, a, b).to_f64();
            let n = 4000;
            let mut s = 0.0;
            for i in 0..n {
                let lo = a + (b - a) * i as f64 / n as f64;
                let hi = a + (b - a) * (i + 1) as f64 / n as f64;
                let (c, h) = ((lo + hi) / 2.0, (hi - lo) / 2.0);
                for k in 0..5 {
                    let t = c + h * nodes[k];
                    let l = t.ln();
                    let mut v = 0.0;
                    for &ci in p.iter().rev() {
                        v = v * l + ci;
                    }
                    s += weights[k] * v * h;
                }
            }
            if (s - exact).abs() > 1e-9 * (1.0 + exact.abs()) {
                errs.push(format!("log_integral({p:?}, {a}, {b}) = {exact} but quadrature gives {s}"));
            }
        }
    }
    errs
}
