pub mod common;
pub mod soup;
pub mod c02;
pub mod c03;
pub mod c16;

use crate::runner::DynProp;

pub fn all() -> Vec<Box<dyn DynProp>> {
    vec![
        Box::new(c02::C02),
        Box::new(c03::C03::default()),
        Box::new(c16::C16::default()),
    ]
}

pub fn by_id(id: &str) -> Option<Box<dyn DynProp>> {
    all().into_iter().find(|p| p.id().eq_ignore_ascii_case(id))
}
