//! `ppcheck oracle`: prints the reference values the Rust oracle computes for inputs given as JSON
//! lines on stdin, so that audit/oracle_audit.py can recompute them independently
//! (Python fractions / mpmath). Exact dyadics are printed as "<sign> <decimal mantissa> <exp2>".

use crate::logint::*;
use crate::num::*;
use crate::props::spline::kruger;
use ppv_exact::{d, mag, Bf, Dy};
use serde_json::{json, Value};
use std::io::{BufRead, Write};

fn dec(m: &mag::Mag) -> String {
    if m.is_empty() {
        return "0".into();
    }
    let mut parts: Vec<u64> = Vec::new();
    let mut cur = m.clone();
    const CH: u64 = 1_000_000_000_000_000_000;
    while !cur.is_empty() {
        let (q, r) = mag::divrem_small(&cur, CH);
        parts.push(r);
        cur = q;
    }
    let mut s = format!("{}", parts.pop().unwrap());
    while let Some(p) = parts.pop() {
        s.push_str(&format!("{:018}", p));
    }
    s
}
pub fn show_dy(v: &Dy) -> String {
    format!("{} {} {}", if v.neg { "-" } else { "+" }, dec(&v.mag), v.exp)
}
fn f(v: &Value) -> f64 {
    let s = v.as_str().expect("hex string");
    f64::from_bits(u64::from_str_radix(s.trim_start_matches("0x"), 16).expect("hex"))
}
fn fv(v: &Value) -> Vec<f64> {
    v.as_array().expect("array").iter().map(f).collect()
}

pub fn run() -> i32 {
    let stdin = std::io::stdin();
    let stdout = std::io::stdout();
    let mut out = stdout.lock();
    for line in stdin.lock().lines() {
        let line = match line {
            Ok(l) => l,
            Err(_) => break,
        };
        if line.trim().is_empty() {
            continue;
        }
        let req: Value = match serde_json::from_str(&line) {
            Ok(v) => v,
            Err(e) => {
                eprintln!("bad request: {e}");
                return 2;
            }
        };
        let resp = match req["kind"].as_str().unwrap_or("") {
            "poly" => {
                let c = fv(&req["c"]);
                let x = d(f(&req["x"]));
                json!({"p": show_dy(&poly_exact(&c, &x)), "s": show_dy(&poly_abs(&c, &x))})
            }
            "transc" => {
                let v = f(&req["v"]);
                let x = f(&req["x"]);
                json!({
                    "ln_v": show_dy(Bf::from_f64(v).ln().dy()),
                    "exp_x": show_dy(Bf::from_f64(x).exp().dy()),
                    "x5r": show_dy(x5r(&Bf::from_f64(x)).dy()),
                })
            }
            "logint" => {
                let p = fv(&req["p"]);
                let (a, b) = (f(&req["a"]), f(&req["b"]));
                let q = q_exact(&p);
                json!({
                    "integral": show_dy(log_integral(&p, a, b).dy()),
                    "g_b": show_dy(g_of(&q, b).dy()),
                    "maj_a": show_dy(&log_majorant(&p, a)),
                    "maj_b": show_dy(&log_majorant(&p, b)),
                })
            }
            "quartic" => {
                let n = fv(&req["nums"]);
                let v = f(&req["v"]);
                let (e, m) = quartic_value(n[0], &[n[1], n[2], n[3], n[4]], n[5], v);
                json!({"e": show_dy(e.dy()), "m": show_dy(m.dy())})
            }
            "spline" => {
                let xs = fv(&req["xs"]);
                let ys = fv(&req["ys"]);
                let r = kruger(&xs, &ys);
                let coef: Vec<Vec<String>> = r.coef.iter().map(|c| c.iter().map(|v| show_dy(v.dy())).collect()).collect();
                let shadow: Vec<Vec<String>> = r.shadow.iter().map(|c| c.iter().map(|v| show_dy(v.dy())).collect()).collect();
                json!({"coef": coef, "shadow": shadow, "in_domain": r.in_domain})
            }
            k => {
                eprintln!("unknown kind {k}");
                return 2;
            }
        };
        let _ = writeln!(out, "{}", resp);
    }
    0
}
