//! C15 — scalar operations on segments and piecewise functions preserve breakpoints.

use crate::fl::{hex, B};
use crate::gen;
use crate::model::{build_pw, nums_eq, Nums};
use crate::runner::{Ctx, Outcome, Prop, Tier};
use crate::{dispatch_deg, fail};
use piecewise_polynomial::*;
use proptest::prelude::*;
use serde::{Deserialize, Serialize};
use std::ops::{Mul, MulAssign, Neg};

// level 0 = Segment, 1 = Piecewise
pub const S_MUL: u8 = 0;
pub const S_MUL_ASSIGN: u8 = 1;
pub const S_MUL_ASSIGN_REF: u8 = 2; // impl MulAssign<f64> for &mut Segment<T>
pub const S_TRANSLATE: u8 = 3;
pub const P_MUL: u8 = 4;
pub const P_MUL_ASSIGN: u8 = 5;
pub const P_NEG: u8 = 6;
pub const P_TRANSLATE: u8 = 7;
pub const OP_NAMES: [&str; 8] = [
    "Segment*f64",
    "Segment*=f64",
    "(&mut Segment)*=f64",
    "Segment::translate",
    "Piecewise*f64",
    "Piecewise*=f64",
    "-Piecewise",
    "Piecewise::translate",
];
pub const FAM_NAMES: [&str; 5] = ["PolyK", "Log<PolyK>", "IntOfLog<PolyK>", "IntOfLogPoly4", "PolyN (translate only)"];

/// (family, op) pairs for which the library's trait bounds are satisfiable
pub fn instances() -> Vec<(u8, u8)> {
    let mut v = Vec::new();
    for fam in 0u8..4 {
        for op in 0u8..8 {
            let needs_mul_assign = matches!(op, S_MUL_ASSIGN | S_MUL_ASSIGN_REF | P_MUL_ASSIGN);
            let needs_neg = op == P_NEG;
            if needs_mul_assign && fam == 3 {
                continue; // IntOfLogPoly4 has no MulAssign
            }
            if needs_neg && fam == 1 {
                continue; // Log has no Neg
            }
            v.push((fam, op));
        }
    }
    v
}

#[derive(Clone, Debug, Hash, Serialize, Deserialize)]
pub struct Case {
    pub fam: u8,
    pub op: u8,
    pub deg: u8,
    pub ends: Vec<B>,
    pub pool: Vec<B>,
    pub s: B,
}

pub struct C15;

struct Res {
    ends_in: Vec<f64>,
    ends_out: Vec<f64>,
    pieces_out: Vec<Vec<f64>>,
    pieces_want: Vec<Vec<f64>>,
}

fn cmp<T: Nums>(input: &Piecewise<T>, out: &Piecewise<T>, want: Vec<T>) -> Res {
    Res {
        ends_in: input.segments.iter().map(|s| s.end).collect(),
        ends_out: out.segments.iter().map(|s| s.end).collect(),
        pieces_out: out.segments.iter().map(|s| s.poly.flat()).collect(),
        pieces_want: want.iter().map(|p| p.flat()).collect(),
    }
}

fn run_common<T>(op: u8, ends: &[f64], pool: &[f64], s: f64) -> Result<Res, String>
where
    T: Nums + Copy + Mul<f64, Output = T> + Translate,
{
    let pw: Piecewise<T> = build_pw(ends, pool);
    crate::runner::lib(|| match op {
        S_MUL => {
            let out = Piecewise { segments: pw.segments.iter().map(|sg| *sg * s).collect() };
            let want = pw.segments.iter().map(|sg| sg.poly * s).collect();
            cmp(&pw, &out, want)
        }
        S_TRANSLATE => {
            let out = Piecewise {
                segments: pw
                    .segments
                    .iter()
                    .map(|sg| {
                        let mut m = *sg;
                        m.translate(s);
                        m
                    })
                    .collect(),
            };
            let want = pw
                .segments
                .iter()
                .map(|sg| {
                    let mut p = sg.poly;
                    p.translate(s);
                    p
                })
                .collect();
            cmp(&pw, &out, want)
        }
        P_MUL => {
            let out = pw.clone() * s;
            let want = pw.segments.iter().map(|sg| sg.poly * s).collect();
            cmp(&pw, &out, want)
        }
        P_TRANSLATE => {
            let mut out = pw.clone();
            out.translate(s);
            let want = pw
                .segments
                .iter()
                .map(|sg| {
                    let mut p = sg.poly;
                    p.translate(s);
                    p
                })
                .collect();
            cmp(&pw, &out, want)
        }
        _ => unreachable!(),
    })
}
fn run_mul_assign<T>(op: u8, ends: &[f64], pool: &[f64], s: f64) -> Result<Res, String>
where
    T: Nums + Copy + MulAssign<f64>,
{
    let pw: Piecewise<T> = build_pw(ends, pool);
    crate::runner::lib(|| {
        let want: Vec<T> = pw
            .segments
            .iter()
            .map(|sg| {
                let mut p = sg.poly;
                p *= s;
                p
            })
            .collect();
        let out = match op {
            S_MUL_ASSIGN => Piecewise {
                segments: pw
                    .segments
                    .iter()
                    .map(|sg| {
                        let mut m = *sg;
                        m *= s;
                        m
                    })
                    .collect(),
            },
            S_MUL_ASSIGN_REF => {
                let mut o = pw.clone();
                for mut r in o.segments.iter_mut() {
                    // resolves to `impl MulAssign<f64> for &mut Segment<T>`
                    r *= s;
                }
                o
            }
            P_MUL_ASSIGN => {
                let mut o = pw.clone();
                o *= s;
                o
            }
            _ => unreachable!(),
        };
        cmp(&pw, &out, want)
    })
}
fn run_neg<T>(ends: &[f64], pool: &[f64]) -> Result<Res, String>
where
    T: Nums + Copy + Neg<Output = T>,
{
    let pw: Piecewise<T> = build_pw(ends, pool);
    crate::runner::lib(|| {
        let want = pw.segments.iter().map(|sg| -sg.poly).collect();
        let out = -pw.clone();
        cmp(&pw, &out, want)
    })
}

// family adapters (so dispatch_deg! can be used)
fn common_poly<P: Nums + Copy + Mul<f64, Output = P> + Translate>(op: u8, e: &[f64], p: &[f64], s: f64) -> Result<Res, String> {
    run_common::<P>(op, e, p, s)
}
fn common_log<P: Nums + Copy + Mul<f64, Output = P> + Translate>(op: u8, e: &[f64], p: &[f64], s: f64) -> Result<Res, String> {
    run_common::<Log<P>>(op, e, p, s)
}
fn common_iol<P: Nums + Copy + Mul<f64, Output = P> + Translate>(op: u8, e: &[f64], p: &[f64], s: f64) -> Result<Res, String> {
    run_common::<IntOfLog<P>>(op, e, p, s)
}
fn ma_poly<P: Nums + Copy + MulAssign<f64>>(op: u8, e: &[f64], p: &[f64], s: f64) -> Result<Res, String> {
    run_mul_assign::<P>(op, e, p, s)
}
fn ma_log<P: Nums + Copy + MulAssign<f64>>(op: u8, e: &[f64], p: &[f64], s: f64) -> Result<Res, String> {
    run_mul_assign::<Log<P>>(op, e, p, s)
}
fn ma_iol<P: Nums + Copy + MulAssign<f64>>(op: u8, e: &[f64], p: &[f64], s: f64) -> Result<Res, String> {
    run_mul_assign::<IntOfLog<P>>(op, e, p, s)
}
fn neg_poly<P: Nums + Copy + Neg<Output = P>>(e: &[f64], p: &[f64]) -> Result<Res, String> {
    run_neg::<P>(e, p)
}
fn neg_iol<P: Nums + Copy + Neg<Output = P>>(e: &[f64], p: &[f64]) -> Result<Res, String> {
    run_neg::<IntOfLog<P>>(e, p)
}

impl Prop for C15 {
    type Case = Case;
    fn id(&self) -> &'static str {
        "C15"
    }
    fn rule(&self) -> String {
        "case = ((piece family, operator) uniform over the 28 combinations whose trait bounds are satisfiable: {Segment*s, Segment*=s, (&mut Segment)*=s, Segment::translate, Piecewise*s, Piecewise*=s, -Piecewise, Piecewise::translate} x {PolyK, Log<PolyK>, IntOfLog<PolyK>, IntOfLogPoly4} minus MulAssign on IntOfLogPoly4 and Neg on Log; degree 0..=8; 1..=12 breakpoints from the lattice generator (Segment-level operators are applied to every segment of the list); pool of pairwise distinct finite numbers, piece j = pool rotated by 3j (1 case in 4: constant or period-3 pool, so that adjacent pieces are IDENTICAL functions - a step function with a plateau); scalar as in C14). Oracle: number of pieces, order and every end bit-identical; piece i of the result has exactly the numbers of the same operator applied to piece i alone, and exactly the numbers obtained by scaling / negating / translating the input piece number by number with plain f64 operations. Breakpoints are usually sorted, 1 in 10 lists are long (up to 40), 1 in 10 are in arbitrary order. Non-trivial: >=2 pieces.".into()
    }
    fn cases(&self, tier: Tier) -> u64 {
        tier.pick(1_000_000, 10_000_000)
    }
    fn strategy(&self, _tier: Tier) -> BoxedStrategy<Case> {
        let inst = instances();
        let scalars = prop_oneof![
            2 => gen::from_table(&[0.0, -0.0, 1.0, -1.0, 2.0, -2.0, 0.5, 3.0, -7.0, 1e-300, -1e300, 5e-324, f64::MAX, 1.5, 0.9999999999999999, 1.0000000000000002, -0.9999999999999999]),
            2 => gen::any_finite(),
        ];
        let ends = prop_oneof![
            9 => gen::ends_long(12, 40, false),
            1 => (gen::ends(12, false), any::<u64>()).prop_map(|(mut e, r)| { let n = e.len(); for i in 0..n { e.swap(i, ((r >> (i % 48)) as usize + i * 7) % n); } e }),
        ];
        let pools = prop_oneof![6 => gen::distinct_numbers(13), 1 => gen::any_finite().prop_map(|c| vec![c; 13]), 1 => gen::distinct_numbers(3).prop_map(|v| (0..13).map(|i| v[i % 3]).collect::<Vec<f64>>())];
        (0..inst.len(), 0u8..9, ends, pools, scalars)
            .prop_map(move |(ii, deg, ends, pool, s)| {
                let (fam, op) = inst[ii];
                // 1 case in 16: PolyN pieces under translate (segment or piecewise level); the constant is the exact
                // negation of the first piece's constant term in half of them
                let polyn = pool[12].to_bits() % 16 == 0;
                if polyn {
                    let op = if pool[11].to_bits() % 2 == 0 { S_TRANSLATE } else { P_TRANSLATE };
                    let s = if pool[10].to_bits() % 2 == 0 { -pool[0] } else { s };
                    return Case { fam: 4, op, deg, ends: ends.into_iter().map(B).collect(), pool: pool.into_iter().map(B).collect(), s: B(s) };
                }
                Case { fam, op, deg, ends: ends.into_iter().map(B).collect(), pool: pool.into_iter().map(B).collect(), s: B(s) }
            })
            .boxed()
    }
    fn check(&self, case: &Case, ctx: &mut Ctx) -> Outcome {
        let (fam, op, deg) = (case.fam, case.op, case.deg % 9);
        if fam == 4 {
            return check_polyn(case, ctx);
        }
        if !instances().contains(&(fam, op)) {
            return Outcome::Skip("no such operator impl");
        }
        let ends: Vec<f64> = case.ends.iter().map(|b| b.0).collect();
        let pool: Vec<f64> = case.pool.iter().map(|b| b.0).collect();
        let s = case.s.0;
        if ends.is_empty() {
            return Outcome::Skip("zero pieces: the property quantifies over 1..n pieces");
        }
        if pool.len() < 11 || pool.iter().any(|v| !v.is_finite()) || !s.is_finite() || ends.iter().any(|e| e.is_nan()) {
            return Outcome::Skip("malformed case");
        }
        ctx.label(FAM_NAMES[fam as usize]);
        ctx.label(OP_NAMES[op as usize]);
        ctx.label(match ends.len() {
            0 => "pieces:0",
            1 => "pieces:1",
            _ => "pieces:>=2",
        });
        ctx.nontrivial = ends.len() >= 2;
        let r = match op {
            S_MUL | S_TRANSLATE | P_MUL | P_TRANSLATE => match fam {
                0 => dispatch_deg!(deg, common_poly(op, &ends, &pool, s)),
                1 => dispatch_deg!(deg, common_log(op, &ends, &pool, s)),
                2 => dispatch_deg!(deg, common_iol(op, &ends, &pool, s)),
                _ => run_common::<IntOfLogPoly4>(op, &ends, &pool, s),
            },
            S_MUL_ASSIGN | S_MUL_ASSIGN_REF | P_MUL_ASSIGN => match fam {
                0 => dispatch_deg!(deg, ma_poly(op, &ends, &pool, s)),
                1 => dispatch_deg!(deg, ma_log(op, &ends, &pool, s)),
                _ => dispatch_deg!(deg, ma_iol(op, &ends, &pool, s)),
            },
            _ => match fam {
                0 => dispatch_deg!(deg, neg_poly(&ends, &pool)),
                2 => dispatch_deg!(deg, neg_iol(&ends, &pool)),
                _ => run_neg::<IntOfLogPoly4>(&ends, &pool),
            },
        };
        let r = match r {
            Ok(r) => r,
            Err(m) => fail!("{} on {} (degree {deg}): library panicked: {m}", OP_NAMES[op as usize], FAM_NAMES[fam as usize]),
        };
        let what = format!("{} on pieces of {} (degree {deg}), scalar {}", OP_NAMES[op as usize], FAM_NAMES[fam as usize], hex(s));
        ctx.comparisons += 1 + r.ends_in.len() as u64 * 2;
        if r.ends_out.len() != r.ends_in.len() {
            fail!("{what}: {} pieces in, {} pieces out", r.ends_in.len(), r.ends_out.len());
        }
        for i in 0..r.ends_in.len() {
            if r.ends_in[i].to_bits() != r.ends_out[i].to_bits() {
                fail!("{what}: breakpoint #{i} changed from {} to {} (ends in: {:?})", hex(r.ends_in[i]), hex(r.ends_out[i]), r.ends_in);
            }
            if !nums_eq(&r.pieces_out[i], &r.pieces_want[i]) {
                fail!("{what}: piece #{i} of the result is {:?} but the operator applied to that piece alone gives {:?}", r.pieces_out[i], r.pieces_want[i]);
            }
            // ... and what that is, number by number, independently of the library's piece-level operator
            // (C14 pins it; repeated here so that (f*s)(x) = s*f(x) does not rest on a shared slip)
            let input: Vec<f64> = {
                let n = r.pieces_out[i].len();
                (0..n).map(|k| pool[(k + i * 3) % pool.len()]).collect()
            };
            let plain: Vec<f64> = match op {
                S_MUL | S_MUL_ASSIGN | S_MUL_ASSIGN_REF | P_MUL | P_MUL_ASSIGN => input.iter().map(|v| v * s).collect(),
                P_NEG => input.iter().map(|v| -v).collect(),
                _ => {
                    let mut t = input.clone();
                    t[0] += s;
                    t
                }
            };
            if !nums_eq(&r.pieces_out[i], &plain) {
                fail!("{what}: piece #{i} of the result is {:?} but the input piece {:?} scaled / negated / translated number by number is {:?}", r.pieces_out[i], input, plain);
            }
        }
        Outcome::Pass
    }
    fn size(&self, c: &Case) -> usize {
        c.ends.len()
    }
}


/// `Translate` on `Segment<PolyN>` / `Piecewise<PolyN>` (the only scalar operation PolyN supports): pieces of
/// different lengths (incl. empty), a constant that is often the exact negation of a piece's constant term.
fn check_polyn(case: &Case, ctx: &mut Ctx) -> Outcome {
    let ends: Vec<f64> = case.ends.iter().map(|b| b.0).collect();
    let pool: Vec<f64> = case.pool.iter().map(|b| b.0).collect();
    let s = case.s.0;
    if pool.len() < 11 || pool.iter().any(|v| !v.is_finite()) || !s.is_finite() || ends.iter().any(|e| e.is_nan()) {
        return Outcome::Skip("malformed case");
    }
    let piecewise_level = case.op == P_TRANSLATE;
    ctx.label(FAM_NAMES[4]);
    ctx.label(if piecewise_level { OP_NAMES[P_TRANSLATE as usize] } else { OP_NAMES[S_TRANSLATE as usize] });
    if ends.is_empty() {
        return Outcome::Skip("zero pieces: the property quantifies over 1..n pieces");
    }
    ctx.nontrivial = ends.len() >= 2;
    let piece = |j: usize| -> Vec<f64> {
        let len = (j * 5 + case.deg as usize) % 7; // 0..=6 coefficients, empty included
        (0..len).map(|i| pool[(i + j * 3) % pool.len()]).collect()
    };
    let pw = Piecewise { segments: ends.iter().enumerate().map(|(j, &e)| Segment { end: e, poly: PolyN(piece(j)) }).collect::<Vec<_>>() };
    let out = if piecewise_level {
        crate::lib!({
            let mut o = pw.clone();
            o.translate(s);
            o
        })
    } else {
        crate::lib!(Piecewise {
            segments: pw
                .segments
                .iter()
                .map(|sg| {
                    let mut m = sg.clone();
                    m.translate(s);
                    m
                })
                .collect::<Vec<_>>()
        })
    };
    ctx.comparisons += 1 + ends.len() as u64;
    if out.segments.len() != ends.len() {
        crate::fail!("translate on {} pieces of PolyN gave {} pieces", ends.len(), out.segments.len());
    }
    for (j, sg) in out.segments.iter().enumerate() {
        if sg.end.to_bits() != ends[j].to_bits() {
            crate::fail!("translate on PolyN pieces: breakpoint #{j} changed from {} to {}", hex(ends[j]), hex(sg.end));
        }
        let mut want = piece(j);
        if want.is_empty() {
            want.push(s);
        } else {
            want[0] += s;
        }
        if !nums_eq(&sg.poly.0, &want) {
            crate::fail!("translate({}) on piece #{j} = PolyN({:?}) gave PolyN({:?}) but adding the constant to the additive constant only gives {:?}", hex(s), piece(j), sg.poly.0, want);
        }
    }
    Outcome::Pass
}
