//! C11 — piecewise integration is continuous at breakpoints and is the true integral.

use super::c07::{exact_poly_integral, integral_majorant};
use super::c09::majorant as log_maj;
use crate::fl::{hex, B};
use crate::gen;
use crate::logint::*;
use crate::model::{bits_eq, build_pw, select, Flat, Nums};
use crate::num::*;
use crate::runner::{idx, Ctx, Outcome, Prop, Tier};
use crate::{dispatch_deg, dispatch_deg7, fail};
use piecewise_polynomial::*;
use ppv_exact::{d, Bf, Dy};
use proptest::collection::vec;
use proptest::prelude::*;
use serde::{Deserialize, Serialize};

#[derive(Clone, Debug, Hash, Serialize, Deserialize)]
pub struct Case {
    /// 0: Poly0..Poly7 pieces, 1: Log<Poly0..Poly8> pieces
    pub fam: u8,
    pub deg: u8,
    pub ends: Vec<B>,
    pub pool: Vec<B>,
    pub kx: B,
    pub ky: B,
    pub ts: Vec<B>,
}

pub struct C11;

pub const K: u64 = 160;

struct Obs {
    int_ends: Vec<f64>,
    int_flat: Vec<Vec<f64>>,
    int_piece_vals: Vec<f64>,
    int_pw_vals: Vec<f64>,
    ind_ends: Vec<f64>,
    ind_flat: Vec<Vec<f64>>,
    ind_piece_vals: Vec<f64>,
    seg0_indef_flat: Vec<f64>,
    iter_owned: Vec<Vec<f64>>,
    iter_ref: Vec<Vec<f64>>,
    iter_owned_adapted: Vec<Vec<f64>>,
    iter_ref_adapted: Vec<Vec<f64>>,
    iter_skip1: Vec<Vec<f64>>,
    iter_step2: Vec<Vec<f64>>,
    iter_nth_last: Option<Vec<f64>>,
}

fn seg_flat<U: Flat>(s: &Segment<U>) -> Vec<f64> {
    let mut v = vec![s.end];
    v.extend(s.poly.flat());
    v
}

fn observe<T>(ends: &[f64], pool: &[f64], k0: Knot, pq: &[(usize, f64)], ts: &[f64]) -> Result<Obs, String>
where
    T: Nums + HasIntegral + Copy,
    T::IntegralOf: Translate + Evaluate + Flat + Clone + PartialEq + std::fmt::Debug,
{
    let pw: Piecewise<T> = build_pw(ends, pool);
    crate::runner::lib(|| {
        let f = pw.integral(k0);
        let g = pw.indefinite();
        Obs {
            int_ends: f.segments.iter().map(|s| s.end).collect(),
            int_flat: f.segments.iter().map(seg_flat).collect(),
            int_piece_vals: pq.iter().map(|&(i, t)| f.segments.get(i).map_or(f64::NAN, |s| s.poly.evaluate(t))).collect(),
            int_pw_vals: ts.iter().map(|&t| f.evaluate(t)).collect(),
            ind_ends: g.segments.iter().map(|s| s.end).collect(),
            ind_flat: g.segments.iter().map(seg_flat).collect(),
            ind_piece_vals: pq.iter().map(|&(i, t)| g.segments.get(i).map_or(f64::NAN, |s| s.poly.evaluate(t))).collect(),
            seg0_indef_flat: seg_flat(&pw.segments[0].indefinite()),
            iter_owned: Segment::integral_iter(pw.segments.clone(), k0).map(|s| seg_flat(&s)).collect(),
            iter_ref: Segment::integral_iter_ref(pw.segments.iter(), k0).map(|s| seg_flat(&s)).collect(),
            // the same through iterator adaptors whose size_hint lower bound is 0
            iter_owned_adapted: Segment::integral_iter(pw.segments.clone().into_iter().filter(|_| true), k0).map(|s| seg_flat(&s)).collect(),
            iter_ref_adapted: Segment::integral_iter_ref(pw.segments.iter().skip_while(|_| false), k0).map(|s| seg_flat(&s)).collect(),
            // the RESULT iterator consumed in other ways than next(): skip, step_by, nth
            iter_skip1: Segment::integral_iter_ref(pw.segments.iter(), k0).skip(1).map(|s| seg_flat(&s)).collect(),
            iter_step2: Segment::integral_iter(pw.segments.clone(), k0).step_by(2).map(|s| seg_flat(&s)).collect(),
            iter_nth_last: Segment::integral_iter_ref(pw.segments.iter(), k0).nth(pw.segments.len().saturating_sub(1)).map(|s| seg_flat(&s)),
        }
    })
}
fn obs_poly<P>(e: &[f64], p: &[f64], k: Knot, pq: &[(usize, f64)], ts: &[f64]) -> Result<Obs, String>
where
    P: Nums + HasIntegral + Copy,
    P::IntegralOf: Translate + Evaluate + Flat + Clone + PartialEq + std::fmt::Debug,
{
    observe::<P>(e, p, k, pq, ts)
}
fn obs_log<P>(e: &[f64], p: &[f64], k: Knot, pq: &[(usize, f64)], ts: &[f64]) -> Result<Obs, String>
where
    P: Nums + Copy,
    Log<P>: HasIntegral,
    <Log<P> as HasIntegral>::IntegralOf: Translate + Evaluate + Flat + Clone + PartialEq + std::fmt::Debug,
{
    observe::<Log<P>>(e, p, k, pq, ts)
}

/// the numbers of piece j (must mirror model::build_pw)
fn piece_nums(pool: &[f64], j: usize, n: usize) -> Vec<f64> {
    (0..n).map(|i| pool[(i + j * 3) % pool.len()]).collect()
}

struct Integrand {
    log: bool,
    c: Vec<f64>,
}
impl Integrand {
    fn integral(&self, a: f64, b: f64) -> Bf {
        if self.log {
            log_integral(&self.c, a, b)
        } else {
            exact_poly_integral(&self.c, &d(a), &d(b))
        }
    }
    /// the antiderivative's evaluation at t stays inside C01's domain: every non-zero monomial c_i·t^(i+1) and every
    /// bare power t^j (j >= 2) it may form is within 2^±900 (what `evaluate` returns when a monomial overflows or
    /// underflows is pinned by no property, so the value clauses do not judge such points)
    fn terms_ok(&self, t: f64) -> bool {
        if self.log || t == 0.0 || !t.is_finite() {
            return true;
        }
        let dt = d(t);
        let mut pw = dt.clone();
        for i in 0..self.c.len() {
            // pw = t^(i+1)
            if i + 1 >= 2 && !in_range(&pw, 900) {
                return false;
            }
            if self.c[i] != 0.0 && !in_range(&d(self.c[i]).mul(&pw), 900) {
                return false;
            }
            pw = pw.mul(&dt);
        }
        true
    }
    /// magnitude of the antiderivative's terms at t
    fn maj(&self, t: f64) -> Dy {
        if self.log {
            log_maj(&self.c, t)
        } else {
            integral_majorant(&self.c, &Dy::zero(), &d(t))
        }
    }
}

impl Prop for C11 {
    type Case = Case;
    fn id(&self) -> &'static str {
        "C11"
    }
    fn rule(&self) -> String {
        "case = (piece type: Poly0..Poly7 or Log<Poly0..Poly8> (type is part of the case), 1..=L pieces (L=8 quick, 24 thorough) with ends from positive lattices (duplicates, ends one ulp apart; shifted by 0/-1/-2.5 for polynomial pieces so that ends straddle 0), piece j's coefficients = pool of moderate numbers rotated by 3j, pool and k0.y times a common power of two (1 in 70% of cases, else 2^k with k uniform in ±250); all abscissae (ends, k0.x, evaluation points) times a common power of two 2^k (k in -100..40, 1 case in 5); 1 case in 6 has an OPEN-ENDED last piece (end = +inf, f64::MAX or 1e200); knot k0 with x strictly inside the first piece / exactly at its end / beyond it (>0 for logs), y any; evaluation points from the list's alphabet: at every end, one ulp either side, midpoints, beyond both extremes). Oracle: per-piece exact integrals (polynomials: exact dyadic powers, 384-bit division; logs: t·Q(ln t) closed form), cumulative magnitude W_j = |k0.y| + Σ_{l<=j}(M_l(left_l)+M_l(right_l)), tolerance 160(j+1)u·W_j (+1e-12·W_j for quartic pieces). Clauses: (1) same number of pieces, every end bit-identical; (2) first piece passes through k0; (3) adjacent pieces agree at every interior breakpoint; (4) every piece is an antiderivative of its integrand (F_i(b)-F_i(a) vs exact); (5) when k0.x < e_0: Piecewise::evaluate(t) = k0.y + ∫_{k0.x}^t f summed exactly over the pieces crossed; (6) indefinite(): first piece bit-identical to segments[0].indefinite(), clauses 1,3,4 again; (7) integral_iter (by value) and integral_iter_ref yield bit-identical pieces equal to Piecewise::integral, also when fed through iterator adaptors (filter / skip_while that keep everything; their size_hint lower bound is 0). Non-trivial: >=3 pieces and (k0.x strictly inside the first piece or an evaluation >= 2 breakpoints away from k0.x).".into()
    }
    fn cases(&self, tier: Tier) -> u64 {
        tier.pick(80_000, 800_000)
    }
    fn strategy(&self, tier: Tier) -> BoxedStrategy<Case> {
        let l = tier.pick(8, 24);
        (
            (0u8..2, 0u8..9, 0u8..3, 0u8..3, any::<u16>()),
            gen::ends(l, true),
            vec(gen::moderate(10), 13),
            gen::moderate(20),
            vec(any::<u16>(), 4..10),
            gen::common_scale(250),
            (prop_oneof![16 => Just(1.0), 4 => (-100i32..=40).prop_map(|k| ppv_exact::pow2_f64(k as i64)), 1 => (1016i32..=1020).prop_map(|k| ppv_exact::pow2_f64(k as i64))], 0u8..18),
        )
            .prop_map(|((fam, deg0, shift, kclass, kfrac), ends0, pool, ky, qs, sc, (xsc, open))| {
                let pool: Vec<f64> = pool.into_iter().map(|v| v * sc).collect();
                let ky = ky * sc;
                let deg = if fam == 0 { deg0 % 8 } else { deg0 };
                // (with the huge abscissa scale the ends are centred on zero: adjacent breakpoints of opposite sign
                // whose distance exceeds f64::MAX)
                let off = if fam == 0 { if xsc > 1e100 { -10.0 } else { [0.0, -1.0, -2.5][shift as usize] } } else { 0.0 };
                let ends: Vec<f64> = ends0.iter().map(|e| e + off).collect();
                let e0 = ends[0];
                let fr = (kfrac as f64 + 1.0) / 65538.0; // (0,1)
                let kx = match kclass {
                    0 => {
                        // strictly inside the first piece (below its end)
                        if fam == 1 {
                            e0 * (0.3 + 0.7 * fr) * 0.999
                        } else {
                            e0 - (0.01 + 2.0 * fr)
                        }
                    }
                    1 => e0,
                    _ => {
                        // beyond the end of the first piece
                        let last = ends[ends.len() - 1];
                        e0 + (last - e0 + 0.5) * fr + 1e-3
                    }
                };
                let mut alpha = gen::alphabet(&ends, &[kx], false);
                let tmax = if xsc > 1e100 { 15.9 } else { 100.0 };
                alpha.retain(|t| t.is_finite() && t.abs() < tmax && (fam == 0 || *t > 1e-3));
                if alpha.is_empty() {
                    alpha.push(ends[0]);
                }
                let ts: Vec<f64> = qs.iter().map(|&q| alpha[idx(q, alpha.len())] * xsc).collect();
                // common abscissa scale (exact power of two) and, 1 case in 6, an open-ended last piece
                let huge = xsc > 1e100;
                let mut ends: Vec<f64> = ends.iter().map(|e| e * xsc).collect();
                let kx = kx * xsc;
                // with a huge abscissa scale (adjacent breakpoints of opposite sign whose DISTANCE overflows) only
                // constant pieces with tiny values keep every magnitude representable
                let (deg, pool, ky) = if huge && fam == 0 { (0u8, pool.iter().map(|v| v * 2.0f64.powi(-700)).collect::<Vec<f64>>(), ky * 2.0f64.powi(-700)) } else { (deg, pool, ky) };
                // coincidence between two inputs: the knot ordinate is bit-equal to the first breakpoint
                let ky = if open == 17 { ends[0] } else { ky };
                if open < 3 {
                    let n = ends.len();
                    ends[n - 1] = [f64::INFINITY, f64::MAX, 1e200][open as usize];
                }
                Case { fam, deg, ends: ends.into_iter().map(B).collect(), pool: pool.into_iter().map(B).collect(), kx: B(kx), ky: B(ky), ts: ts.into_iter().map(B).collect() }
            })
            .boxed()
    }
    fn check(&self, case: &Case, ctx: &mut Ctx) -> Outcome {
        let fam = case.fam % 2;
        let deg = if fam == 0 { case.deg % 8 } else { case.deg % 9 };
        let ends: Vec<f64> = case.ends.iter().map(|b| b.0).collect();
        let pool: Vec<f64> = case.pool.iter().map(|b| b.0).collect();
        let ts: Vec<f64> = case.ts.iter().map(|b| b.0).collect();
        let (kx, ky) = (case.kx.0, case.ky.0);
        let n = ends.len();
        let log = fam == 1;
        if n == 0
            || pool.len() < 9
            || pool.iter().any(|v| !v.is_finite())
            || ends[..n.saturating_sub(1)].iter().any(|e| !e.is_finite())
            || ends[n.saturating_sub(1)..].iter().any(|e| e.is_nan() || *e == f64::NEG_INFINITY)
            || ends.windows(2).any(|w| !(w[0] <= w[1]))
            || !kx.is_finite()
            || !ky.is_finite()
            || ts.is_empty()
            || ts.iter().any(|t| !t.is_finite())
            || (log && (ends[0] <= 0.0 || kx <= 0.0 || ts.iter().any(|t| *t <= 0.0)))
        {
            return Outcome::Skip("malformed case");
        }
        let ncoef = deg as usize + 1;
        let pieces: Vec<Integrand> = (0..n).map(|j| Integrand { log, c: piece_nums(&pool, j, ncoef) }).collect();
        let quartic = log && deg == 4;
        // piece queries: (piece, left), (piece, right), (piece, a), (piece, b)
        let left = |i: usize| if i == 0 { kx } else { ends[i - 1] };
        #[allow(unused_mut)]
        let mut pq: Vec<(usize, f64)> = Vec::new();
        for i in 0..n {
            pq.push((i, left(i)));
            pq.push((i, ends[i]));
            pq.push((i, ts[i % ts.len()]));
            pq.push((i, ts[(i + 1) % ts.len()]));
        }
        // an open-ended last piece (end = +inf / MAX / 1e200): F_last(end) is never needed by anybody
        let open_last = !(ends[n - 1].abs() <= 1e100);
        if open_last {
            ctx.label("open-ended last piece");
            let l = pq.len();
            pq[l - 3].1 = left(n - 1);
            if n == 1 && !(kx.abs() <= 1e100) {
                return Outcome::Skip("malformed case");
            }
        }
        let k0 = Knot::new(kx, ky);
        let obs = if log { dispatch_deg!(deg, obs_log(&ends, &pool, k0, &pq, &ts)) } else { dispatch_deg7!(deg, obs_poly(&ends, &pool, k0, &pq, &ts)) };
        let obs = match obs {
            Ok(o) => o,
            Err(m) => fail!("piecewise integral panicked: {m}"),
        };
        let tyname = if log { format!("Piecewise<Log<Poly{deg}>>") } else { format!("Piecewise<Poly{deg}>") };
        ctx.label(if log { "Log pieces" } else { "Poly pieces" });
        ctx.label(if kx < ends[0] { "knot inside first piece" } else if kx == ends[0] { "knot at first end" } else { "knot beyond first end" });
        if ends.windows(2).any(|w| w[0] == w[1]) {
            ctx.label("duplicate-ends");
        }
        let jk = select(&ends, kx);
        let far = ts.iter().any(|&t| (select(&ends, t) as i64 - jk as i64).abs() >= 2);
        ctx.nontrivial = n >= 3 && (kx < ends[0] || far);
        // ---- cumulative magnitudes ----
        let mut w_int: Vec<Dy> = Vec::with_capacity(n);
        let mut w_ind: Vec<Dy> = Vec::with_capacity(n);
        let mut acc_int = d(ky).abs();
        let mut acc_ind = Dy::zero();
        for i in 0..n {
            let right_needed = !(open_last && i == n - 1);
            let mr = if right_needed { pieces[i].maj(ends[i]) } else { Dy::zero() };
            let m = pieces[i].maj(left(i)).add(&mr);
            acc_int = acc_int.add(&m);
            // indefinite(): piece 0 has constant 0 and no left point
            acc_ind = acc_ind.add(&if i == 0 { mr.clone() } else { m });
            if !in_range(&acc_int, 800) {
                return Outcome::Skip("a magnitude is outside 2^±800");
            }
            w_int.push(acc_int.clone());
            w_ind.push(acc_ind.clone());
        }
        let factor = |j: usize, w: &Dy| -> Dy {
            let base = u().mul(w).mul_u64(K * (j as u64 + 1));
            let base = if quartic { base.add(&tol_1e12().0.mul(w).mul_u64(j as u64 + 1).round_up_abs(128)) } else { base };
            base.add(&w.mul_pow2(-290))
        };
        // ---- clause 1 & 7 & 6(first piece) ----
        ctx.comparisons += 6;
        if obs.int_ends.len() != n || obs.ind_ends.len() != n {
            fail!("{tyname}: {} pieces in, integral has {}, indefinite has {}", n, obs.int_ends.len(), obs.ind_ends.len());
        }
        if !bits_eq(&obs.int_ends, &ends) || !bits_eq(&obs.ind_ends, &ends) {
            fail!("{tyname}: breakpoints changed: in {:?}, integral {:?}, indefinite {:?}", ends, obs.int_ends, obs.ind_ends);
        }
        // piece lists are compared bit for bit (a NaN constant - e.g. from an out-of-domain evaluation - equals itself)
        let same_pieces = |x: &[Vec<f64>], y: &[Vec<f64>]| x.len() == y.len() && x.iter().zip(y).all(|(a, b)| bits_eq(a, b));
        if !same_pieces(&obs.iter_owned, &obs.iter_ref) || obs.iter_owned.len() != n || !obs.iter_owned.iter().zip(&obs.int_flat).all(|(a, b)| bits_eq(a, b)) || !obs.iter_ref.iter().zip(&obs.int_flat).all(|(a, b)| bits_eq(a, b)) {
            fail!("{tyname}: integral_iter (by value) {:?}, integral_iter_ref {:?} and Piecewise::integral {:?} do not yield identical pieces", obs.iter_owned, obs.iter_ref, obs.int_flat);
        }
        if !same_pieces(&obs.iter_owned_adapted, &obs.iter_owned) || !same_pieces(&obs.iter_ref_adapted, &obs.iter_ref) {
            fail!("{tyname}: integral_iter / integral_iter_ref fed through an iterator adaptor (filter / skip_while that keep everything) yield {:?} / {:?} instead of {:?}", obs.iter_owned_adapted, obs.iter_ref_adapted, obs.iter_owned);
        }
        {
            let all = &obs.iter_ref;
            let skip1: Vec<Vec<f64>> = all.iter().skip(1).cloned().collect();
            let step2: Vec<Vec<f64>> = all.iter().step_by(2).cloned().collect();
            let nth_same = match (obs.iter_nth_last.as_ref(), all.last()) { (Some(a), Some(b)) => bits_eq(a, b), (None, None) => true, _ => false };
            if !same_pieces(&obs.iter_skip1, &skip1) || !same_pieces(&obs.iter_step2, &step2) || !nth_same {
                fail!("{tyname}: the segment-integration iterators give different pieces when consumed through skip(1) / step_by(2) / nth(last) than through next(): {:?} / {:?} / {:?} vs all pieces {:?}", obs.iter_skip1, obs.iter_step2, obs.iter_nth_last, all);
            }
        }
        if !crate::model::nums_eq(&obs.ind_flat[0], &obs.seg0_indef_flat) {
            fail!("{tyname}.indefinite(): first piece {:?} is not segments[0].indefinite() = {:?}", obs.ind_flat[0], obs.seg0_indef_flat);
        }
        // (a function with zero pieces is outside the property's "1..n pieces": what integral() does with it is not judged)
        let pv = |vals: &[f64], i: usize, which: usize| vals[4 * i + which];
        // piece j's additive constant is computed from evaluations at k0.x and at every earlier breakpoint: the value
        // clauses judge piece j only if all of those evaluations were inside C01's domain (see Integrand::terms_ok)
        let mut chain_ind = vec![true; n];
        for j in 1..n {
            chain_ind[j] = chain_ind[j - 1] && pieces[j - 1].terms_ok(ends[j - 1]) && pieces[j].terms_ok(ends[j - 1]);
        }
        let k_ok = pieces[0].terms_ok(kx);
        let chain_int: Vec<bool> = chain_ind.iter().map(|&c| c && k_ok).collect();
        // ---- clause 2: first piece through k0 ----
        ctx.comparisons += 1;
        let f0k = pv(&obs.int_piece_vals, 0, 0);
        let tol0 = factor(0, &w_int[0]);
        if pieces[0].terms_ok(kx) && !within(f0k, &d(ky), &tol0) {
            fail!("{tyname}.integral(k0=({}, {})): first piece evaluates to {} at k0.x (error {:.3e} × allowed {}); ends {:?}", hex(kx), hex(ky), hex(f0k), ratio(f0k, &d(ky), &tol0), tol0.show(), ends);
        }
        if pieces[0].terms_ok(kx) {
            ctx.ratio("first piece through k0", ratio(f0k, &d(ky), &tol0));
        }
        for (name, vals, w, chain) in [("integral(k0)", &obs.int_piece_vals, &w_int, &chain_int), ("indefinite()", &obs.ind_piece_vals, &w_ind, &chain_ind)] {
            // ---- clause 3: continuity at interior breakpoints ----
            for i in 0..n.saturating_sub(1) {
                let a = pv(vals, i, 1); // F_i(e_i)
                let b = pv(vals, i + 1, 0); // F_{i+1}(e_i)  (left point of piece i+1 is e_i)
                ctx.comparisons += 1;
                let tol = factor(i + 1, &w[i + 1]);
                if !chain[i + 1] {
                    continue;
                }
                if !a.is_finite() || !b.is_finite() || !d(a).sub(&d(b)).abs().le(&tol) {
                    fail!(
                        "{tyname}.{name}: pieces #{i} and #{} disagree at the breakpoint {}: {} vs {} (allowed {}); ends {:?}, k0=({}, {})",
                        i + 1, hex(ends[i]), hex(a), hex(b), tol.show(), ends, hex(kx), hex(ky)
                    );
                }
                if !tol.is_zero() {
                    ctx.ratio("continuity at breakpoints", ratio(a, &d(b), &tol));
                }
            }
            // ---- clause 4: every piece is an antiderivative of its integrand ----
            for i in 0..n {
                let (a, b) = (ts[i % ts.len()], ts[(i + 1) % ts.len()]);
                let (fa, fb) = (pv(vals, i, 2), pv(vals, i, 3));
                ctx.comparisons += 1;
                let ma = pieces[i].maj(a);
                let mb = pieces[i].maj(b);
                if !in_range(&ma, 800) || !in_range(&mb, 800) || !chain[i] || !pieces[i].terms_ok(a) || !pieces[i].terms_ok(b) {
                    continue;
                }
                let tol = factor(i, &w[i].add(&ma).add(&mb));
                let exact = pieces[i].integral(a, b);
                if !fa.is_finite() || !fb.is_finite() || !d(fb).sub(&d(fa)).sub(exact.dy()).abs().le(&tol) {
                    fail!(
                        "{tyname}.{name}: piece #{i} is not an antiderivative of its integrand {:?}: F(b)-F(a) = {} - {} for a={}, b={} but the exact integral is {} (allowed {}); ends {:?}, k0=({}, {})",
                        pieces[i].c, hex(fb), hex(fa), hex(a), hex(b), exact.dy().show(), tol.show(), ends, hex(kx), hex(ky)
                    );
                }
                let e = d(fb).sub(&d(fa)).sub(exact.dy()).abs();
                if !e.is_zero() && !tol.is_zero() {
                    ctx.ratio("piece antiderivative", Bf::from_dy(&e).div(&Bf::from_dy(&tol)).to_f64());
                }
            }
        }
        // ---- clause 5: F(t) = k0.y + ∫_{k0.x}^t f when k0.x lies in the first piece's domain ----
        if kx < ends[0] {
            for (q, &t) in ts.iter().enumerate() {
                let j = select(&ends, t);
                let mut exact = Bf::from_f64(ky);
                if j == 0 {
                    exact = exact.add(&pieces[0].integral(kx, t));
                } else {
                    exact = exact.add(&pieces[0].integral(kx, ends[0]));
                    for l in 1..j {
                        exact = exact.add(&pieces[l].integral(ends[l - 1], ends[l]));
                    }
                    exact = exact.add(&pieces[j].integral(ends[j - 1], t));
                }
                let mt = pieces[j].maj(t);
                if !in_range(&mt, 800) || !chain_int[j] || !pieces[j].terms_ok(t) {
                    continue;
                }
                let tol = factor(j, &w_int[j].add(&mt));
                let got = obs.int_pw_vals[q];
                ctx.comparisons += 1;
                if !within(got, exact.dy(), &tol) {
                    fail!(
                        "{tyname}.integral(k0=({}, {})).evaluate({}) = {} but k0.y + ∫_(k0.x)^t f = {} (t lies in piece #{j}; error {:.3e} × allowed {}); ends {:?}, pool {:?}",
                        hex(kx), hex(ky), hex(t), hex(got), exact.dy().show(), ratio(got, exact.dy(), &tol), tol.show(), ends, pool
                    );
                }
                ctx.ratio("F(t) = k0.y + integral", ratio(got, exact.dy(), &tol));
            }
        }
        Outcome::Pass
    }
    fn size(&self, c: &Case) -> usize {
        c.ends.len()
    }
}
