//! C16 — no panics on well-formed input; NaN queries are harmless.
//!
//! Sub-check 1 (histories): the C03 history engine with NaN (several payloads,
//! both signs) and ±inf anywhere in the history; every non-NaN query after any
//! number of NaN queries must return the bits of direct evaluation; nothing may
//! panic (also `evaluate_v` over the same arguments).
//! Sub-check 2 (operation soup): see `soup.rs`.

use super::c03::{self, check_history, extras_impl, history_from_bytes, history_strategy};
use super::soup::{self, Soup};
use crate::lib;
use crate::runner::{Ctx, Outcome, Prop, Tier};
use arbitrary::Unstructured;
use piecewise_polynomial::*;
use proptest::prelude::*;
use serde::{Deserialize, Serialize};
use std::collections::BTreeMap;
use std::sync::atomic::{AtomicU64, Ordering};

#[derive(Clone, Debug, Hash, Serialize, Deserialize)]
pub enum Case {
    History(c03::Case),
    Soup(Soup),
}

#[derive(Default)]
pub struct C16 {
    pub states: AtomicU64,
    pub transitions: AtomicU64,
}

impl Prop for C16 {
    type Case = Case;
    fn id(&self) -> &'static str {
        "C16"
    }
    fn rule(&self) -> String {
        "two case kinds. History: C03's generator with NaN (5 payloads incl. signalling and negative) and ±inf in the query alphabet at any position; every library call under catch_unwind; every non-NaN query must return the bits of direct evaluation and of the selection model whatever NaN queries preceded it; evaluate_v over the same arguments must not panic. Non-trivial history: >= 3 segments and a NaN followed later by a non-NaN query that selects a segment other than the first and the last. Soup: a generated sequence of public operations on well-formed finite input (linear, constrained_spline, every evaluate at any f64, operators, derivative, integral/indefinite with any finite knot, &a±&b, approx relations, serde, Arbitrary), none may panic; non-trivial soup: >= 3 operations. Extras: exhaustive short histories and reachable-state exploration as in C03 but with NaN in the alphabet.".into()
    }
    fn assumptions(&self) -> Vec<String> {
        vec![
            "'every public operation' is the hand-written enumeration in props/soup.rs of today's API".into(),
            "harness built with debug-assertions and overflow-checks so latent arithmetic/index panics surface".into(),
        ]
    }
    fn cases(&self, tier: Tier) -> u64 {
        tier.pick(600_000, 8_000_000)
    }
    fn strategy(&self, tier: Tier) -> BoxedStrategy<Case> {
        prop_oneof![
            2 => history_strategy(tier.pick(8, 24), tier.pick(40, 200), true).prop_map(Case::History),
            1 => soup::strategy(tier).prop_map(Case::Soup),
        ]
        .boxed()
    }
    fn check(&self, c: &Case, ctx: &mut Ctx) -> Outcome {
        match c {
            Case::History(h) => {
                ctx.label("kind:history");
                let r = check_history(h, ctx, true);
                if !matches!(r, Outcome::Pass) {
                    return r;
                }
                // evaluate_v over the same arguments (any order, NaN included): no panic
                let ends = h.pw.ends_f();
                let tag = h.pw.tag();
                let xs: Vec<f64> = h.xs.iter().map(|b| b.0).collect();
                let n = lib!(tag.evaluate_v(xs.clone()).count());
                if n != xs.len() {
                    return Outcome::Fail(format!("evaluate_v yielded {n} values for {} arguments (ends {ends:?})", xs.len()));
                }
                // ... and with the case's actual piece type (every degree of every family occurs)
                struct EV<'a> {
                    xs: &'a [f64],
                }
                impl<'a> super::common::PwVisitor for EV<'a> {
                    type Out = Outcome;
                    fn visit<T: Evaluate + Clone + std::fmt::Debug + 'static>(&mut self, pw: &Piecewise<T>, _is_tag: bool) -> Outcome {
                        let n = lib!(pw.evaluate_v(self.xs.to_vec()).count());
                        if n != self.xs.len() {
                            return Outcome::Fail(format!("evaluate_v yielded {n} values for {} arguments", self.xs.len()));
                        }
                        Outcome::Pass
                    }
                }
                super::common::visit_pw(&h.pw, &mut EV { xs: &xs })
            }
            Case::Soup(s) => {
                ctx.label("kind:soup");
                soup::check(s, ctx)
            }
        }
    }
    fn extras(&self, tier: Tier, seed: u64, shard: u32, nshards: u32, sink: &mut dyn FnMut(Case, &'static str)) {
        let mut s2 = |c: c03::Case, scope: &'static str| sink(Case::History(c), scope);
        extras_impl(tier, seed, shard, nshards, &mut s2, true, &self.states, &self.transitions)
    }
    fn extra_counters(&self) -> BTreeMap<String, u64> {
        let mut m = BTreeMap::new();
        m.insert("bfs_states".into(), self.states.load(Ordering::Relaxed));
        m.insert("bfs_transitions".into(), self.transitions.load(Ordering::Relaxed));
        m
    }
    fn exhaustive_scopes(&self, _tier: Tier) -> Vec<String> {
        vec![
            "all histories of length <= 3 over the full alphabet incl. 5 NaN payloads, for all sorted multisets of 1..=3 ends over the 5-point lattice".into(),
            "reachable-state fixpoint with NaN in the alphabet per generated list".into(),
        ]
    }
    fn from_bytes(&self, u: &mut Unstructured) -> Option<Case> {
        history_from_bytes(u, true).map(Case::History)
    }
    fn size(&self, c: &Case) -> usize {
        match c {
            Case::History(h) => h.xs.len() * 100 + h.pw.ends.len(),
            Case::Soup(s) => s.ops.len(),
        }
    }
}
