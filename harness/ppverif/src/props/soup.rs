//! C16 sub-check 2: "operation soup" — every public operation of the library on
//! well-formed finite input must return without panicking.

use super::common::*;
use crate::fl::B;
use crate::gen;
use crate::model::PolyK;
use crate::runner::{Ctx, Outcome, Tier};
use crate::{dispatch_deg, lib};
use approx::{AbsDiffEq, RelativeEq};
use arbitrary::{Arbitrary, Unstructured};
use piecewise_polynomial::*;
use proptest::collection::vec;
use proptest::prelude::*;
use serde::{Deserialize, Serialize};
use std::ops::{Add, Mul, MulAssign, Neg};

#[derive(Clone, Debug, Hash, Serialize, Deserialize)]
pub enum Op {
    /// linear() on >= 2 finite knots (any order), then evaluation anywhere
    Linear { knots: Vec<(B, B)>, xs: Vec<B> },
    /// constrained_spline() on >= 3 knots with strictly increasing finite abscissae
    Spline { x0: B, steps: Vec<B>, ys: Vec<B>, xs: Vec<B> },
    /// every operation of PolyK / Log<PolyK> / IntOfLog<PolyK>
    Poly { deg: u8, c: Vec<B>, d: Vec<B>, s: B, x: B, knot: (B, B) },
    /// dynamic-degree polynomial
    PolyN { c: Vec<B>, x: B, t: B },
    /// quartic log-integral form
    Quartic { a: Vec<B>, b: Vec<B>, s: B, v: B },
    /// piecewise operations (operators, merge, calculus, three evaluators)
    Pw { f: PwSpec, g: PwSpec, s: B, xs: Vec<B>, knot: (B, B) },
    /// Arbitrary for Piecewise<T> on raw bytes, then evaluation
    Arb { bytes: Vec<u8>, xs: Vec<B> },
}

#[derive(Clone, Debug, Hash, Serialize, Deserialize)]
pub struct Soup {
    pub ops: Vec<Op>,
}

fn bvec(s: BoxedStrategy<f64>, n: impl Into<proptest::collection::SizeRange>) -> BoxedStrategy<Vec<B>> {
    vec(s.prop_map(B), n).boxed()
}
fn anyf() -> BoxedStrategy<f64> {
    // any f64 incl. NaN / inf (evaluation arguments)
    prop_oneof![8 => gen::any_non_nan(), 1 => gen::any_nan().boxed()].boxed()
}

pub fn op_strategy() -> BoxedStrategy<Op> {
    let fin = gen::any_finite;
    prop_oneof![
        (vec((fin().prop_map(B), fin().prop_map(B)), 2..8), bvec(anyf(), 0..4)).prop_map(|(knots, xs)| Op::Linear { knots, xs }),
        (fin().prop_map(B), bvec(gen::scaled_pos(-40, 40).boxed(), 2..7), bvec(fin(), 8), bvec(anyf(), 0..4))
            .prop_map(|(x0, steps, ys, xs)| Op::Spline { x0, steps, ys, xs }),
        (0u8..9, bvec(fin(), 9), bvec(fin(), 9), fin().prop_map(B), anyf().prop_map(B), (fin().prop_map(B), fin().prop_map(B)))
            .prop_map(|(deg, c, d, s, x, knot)| Op::Poly { deg, c, d, s, x, knot }),
        (bvec(fin(), 0..12), anyf().prop_map(B), fin().prop_map(B)).prop_map(|(c, x, t)| Op::PolyN { c, x, t }),
        (bvec(fin(), 6), bvec(fin(), 6), fin().prop_map(B), anyf().prop_map(B)).prop_map(|(a, b, s, v)| Op::Quartic { a, b, s, v }),
        (pw_spec(8), pw_spec(8), fin().prop_map(B), bvec(anyf(), 0..6), (fin().prop_map(B), fin().prop_map(B)))
            .prop_map(|(f, g, s, xs, knot)| Op::Pw { f, g, s, xs, knot }),
        (vec(any::<u8>(), 0..120), bvec(anyf(), 0..4)).prop_map(|(bytes, xs)| Op::Arb { bytes, xs }),
    ]
    .boxed()
}

pub fn strategy(tier: Tier) -> BoxedStrategy<Soup> {
    vec(op_strategy(), 1..=tier.pick(6, 16)).prop_map(|ops| Soup { ops }).boxed()
}

fn poly_ops<P>(c: &[f64], d: &[f64], s: f64, x: f64) -> Outcome
where
    P: PolyK + Mul<f64, Output = P> + MulAssign<f64> + Neg<Output = P> + Add<Output = P> + Translate + HasDerivative + AbsDiffEq<Epsilon = f64> + RelativeEq,
    <P as HasDerivative>::DerivativeOf: Evaluate,
{
    let p = P::from_coeffs(c);
    let q = P::from_coeffs(d);
    lib!({
        let _ = p.evaluate(x);
        let _ = (p * s).evaluate(x);
        let mut m = p;
        m *= s;
        let _ = (-p).evaluate(x);
        let _ = (p + q).evaluate(x);
        let mut t = p;
        t.translate(s);
        let _ = p.derivative().evaluate(x);
        let _ = p.abs_diff_eq(&q, s.abs());
        let _ = p.relative_eq(&q, s.abs(), 1e-9);
        let _ = p == q;
        // Log wrapper
        let l = Log(p);
        let _ = l.evaluate(x);
        let _ = (l * s).evaluate(x);
        let mut l2 = l;
        l2 *= s;
        l2.translate(s);
        let _ = l.abs_diff_eq(&Log(q), 1e-9);
        let _ = l.relative_eq(&Log(q), 1e-9, 1e-9);
        // IntOfLog form built directly
        let i1 = IntOfLog { k: s, poly: p };
        let i2 = IntOfLog { k: x.min(1e300).max(-1e300), poly: q };
        let i2 = if i2.k.is_nan() { IntOfLog { k: 0.0, poly: q } } else { i2 };
        let _ = i1.evaluate(x);
        let _ = (i1 + i2).evaluate(x);
        let _ = (i1 * s).evaluate(x);
        let _ = (-i1).evaluate(x);
        let mut i3 = i1;
        i3 *= s;
        i3.translate(s);
        let _ = i1.abs_diff_eq(&i2, 1e-9);
        let _ = i1.relative_eq(&i2, 1e-9, 1e-9);
        // segment level
        let mut sg = Segment { end: s, poly: p };
        let _ = (sg * s).evaluate(x);
        sg *= s;
        sg.translate(s);
        let _ = sg.derivative();
        let _ = sg.abs_diff_eq(&Segment { end: s, poly: q }, 1e-9);
    });
    // the three evaluation routes on piecewise functions of THIS piece type and of its Log / IntOfLog wrappers
    let ends = [s.min(x.min(1.0)).min(0.0), 0.5, 0.5, 2.0];
    let mut ends = ends.to_vec();
    ends.retain(|e| !e.is_nan());
    ends.sort_by(|a, b| a.partial_cmp(b).unwrap());
    let xs = [x, s, 0.5, f64::NAN, f64::INFINITY, -1.0];
    let pw = Piecewise { segments: ends.iter().map(|&e| Segment { end: e, poly: p }).collect::<Vec<_>>() };
    match eval3(&pw, &xs) {
        Outcome::Pass => {}
        o => return o,
    }
    let pl = Piecewise { segments: ends.iter().map(|&e| Segment { end: e, poly: Log(q) }).collect::<Vec<_>>() };
    match eval3(&pl, &xs) {
        Outcome::Pass => {}
        o => return o,
    }
    let pi = Piecewise { segments: ends.iter().map(|&e| Segment { end: e, poly: IntOfLog { k: s, poly: p } }).collect::<Vec<_>>() };
    match eval3(&pi, &xs) {
        Outcome::Pass => {}
        o => return o,
    }
    Outcome::Pass
}

fn integ_ops<P>(c: &[f64], x: f64, knot: Knot) -> Outcome
where
    P: PolyK + HasIntegral,
    <P as HasIntegral>::IntegralOf: Evaluate + Translate + Clone + PartialEq + std::fmt::Debug,
    Log<P>: HasIntegral,
    <Log<P> as HasIntegral>::IntegralOf: Evaluate + Translate + Clone + PartialEq + std::fmt::Debug,
{
    let p = P::from_coeffs(c);
    lib!({
        let _ = p.indefinite().evaluate(x);
        let _ = p.integral(knot).evaluate(x);
        let sg = Segment { end: knot.x, poly: p };
        let _ = sg.indefinite().evaluate(x);
        let _ = sg.integral(knot).evaluate(x);
        let pw = Piecewise { segments: vec![sg, Segment { end: knot.x + 1.0, poly: p }] };
        let _ = pw.integral(knot).evaluate(x);
        let _ = pw.indefinite().evaluate(x);
        let _ = Segment::integral_iter(pw.segments.clone(), knot).count();
        let _ = Segment::integral_iter_ref(pw.segments.iter(), knot).count();
    });
    let l = Log(p);
    lib!({
        // any finite knot, including non-positive abscissae (ln gives NaN/-inf, not a panic)
        let _ = l.indefinite().evaluate(x);
        let _ = l.integral(knot).evaluate(x);
        let lp = Piecewise { segments: vec![Segment { end: knot.x, poly: l }, Segment { end: knot.x + 1.0, poly: l }] };
        let _ = lp.integral(knot).evaluate(x);
        let _ = lp.indefinite().evaluate(x);
    });
    Outcome::Pass
}
fn integ8(c: &[f64], x: f64, knot: Knot) -> Outcome {
    let l = Log(Poly8::from_coeffs(c));
    lib!({
        let _ = l.indefinite().evaluate(x);
        let _ = l.integral(knot).evaluate(x);
    });
    Outcome::Pass
}

fn eval3<T: Evaluate>(pw: &Piecewise<T>, xs: &[f64]) -> Outcome {
    lib!({
        for &x in xs {
            let _ = pw.evaluate(x);
        }
        let mut ev = PiecewiseEvaluator::new(&pw.segments);
        for &x in xs {
            let _ = ev.evaluate(x);
        }
        let _ = pw.evaluate_v(xs.to_vec()).count();
    });
    Outcome::Pass
}

macro_rules! tri {
    ($e:expr) => {
        match $e {
            Outcome::Pass => {}
            o => return o,
        }
    };
}

pub fn check_op(op: &Op) -> Outcome {
    match op {
        Op::Linear { knots, xs } => {
            let ks: Vec<Knot> = knots.iter().map(|(x, y)| Knot::new(x.0, y.0)).collect();
            if ks.len() < 2 || ks.iter().any(|k| !k.x.is_finite() || !k.y.is_finite()) {
                return Outcome::Skip("soup: not well-formed");
            }
            let pw = lib!(linear(&ks));
            let xs: Vec<f64> = xs.iter().map(|b| b.0).collect();
            tri!(eval3(&pw, &xs));
            lib!({
                let _ = pw.derivative();
                let _ = pw.integral(ks[0]);
                let _ = pw.indefinite();
            });
            Outcome::Pass
        }
        Op::Spline { x0, steps, ys, xs } => {
            let mut ks = vec![Knot::new(x0.0, ys[0].0)];
            let mut x = x0.0;
            for (i, st) in steps.iter().enumerate() {
                let nx = (x + st.0).max(ppv_exact::next_up(x));
                x = nx;
                ks.push(Knot::new(x, ys[(i + 1) % ys.len()].0));
            }
            if ks.len() < 3 || ks.iter().any(|k| !k.x.is_finite() || !k.y.is_finite()) || ks.windows(2).any(|w| !(w[0].x < w[1].x)) {
                return Outcome::Skip("soup: not well-formed");
            }
            let pw = lib!(constrained_spline(&ks));
            let xs: Vec<f64> = xs.iter().map(|b| b.0).collect();
            tri!(eval3(&pw, &xs));
            lib!({
                let _ = pw.derivative().derivative();
                let _ = pw.integral(ks[1]);
            });
            Outcome::Pass
        }
        Op::Poly { deg, c, d, s, x, knot } => {
            let c: Vec<f64> = c.iter().map(|b| b.0).collect();
            let d: Vec<f64> = d.iter().map(|b| b.0).collect();
            if c.len() < 9 || d.len() < 9 || !s.0.is_finite() || c.iter().chain(d.iter()).any(|v| !v.is_finite()) || !knot.0 .0.is_finite() || !knot.1 .0.is_finite() {
                return Outcome::Skip("soup: not well-formed");
            }
            let k = Knot::new(knot.0 .0, knot.1 .0);
            tri!(dispatch_deg!(*deg, poly_ops(&c, &d, s.0, x.0)));
            match *deg {
                0 => integ_ops::<Poly0>(&c, x.0, k),
                1 => integ_ops::<Poly1>(&c, x.0, k),
                2 => integ_ops::<Poly2>(&c, x.0, k),
                3 => integ_ops::<Poly3>(&c, x.0, k),
                4 => integ_ops::<Poly4>(&c, x.0, k),
                5 => integ_ops::<Poly5>(&c, x.0, k),
                6 => integ_ops::<Poly6>(&c, x.0, k),
                7 => integ_ops::<Poly7>(&c, x.0, k),
                _ => integ8(&c, x.0, k),
            }
        }
        Op::PolyN { c, x, t } => {
            let v: Vec<f64> = c.iter().map(|b| b.0).collect();
            if v.iter().any(|v| !v.is_finite()) || !t.0.is_finite() {
                return Outcome::Skip("soup: not well-formed");
            }
            lib!({
                let mut p = PolyN(v.clone());
                let _ = p.evaluate(x.0);
                p.translate(t.0);
                let _ = p.evaluate(x.0);
                let q = PolyN(v.iter().rev().cloned().collect());
                let _ = p.abs_diff_eq(&q, 1e-9);
                let _ = p.relative_eq(&q, 1e-9, 1e-9);
                let _ = p.abs_diff_eq(&PolyN(vec![]), 1e-9);
            });
            Outcome::Pass
        }
        Op::Quartic { a, b, s, v } => {
            if a.len() < 6 || b.len() < 6 || a.iter().chain(b.iter()).any(|x| !x.0.is_finite()) || !s.0.is_finite() {
                return Outcome::Skip("soup: not well-formed");
            }
            let a: Vec<f64> = a.iter().map(|x| x.0).collect();
            let b: Vec<f64> = b.iter().map(|x| x.0).collect();
            let p = crate::model::q4(&a);
            let q = crate::model::q4(&b);
            lib!({
                let _ = p.evaluate(v.0);
                let _ = (p + q).evaluate(v.0);
                let _ = (&p + &q).evaluate(v.0);
                let _ = (p - q).evaluate(v.0);
                let _ = (&p - &q).evaluate(v.0);
                let _ = (-p).evaluate(v.0);
                let _ = (p * s.0).evaluate(v.0);
                let mut t = p;
                t.translate(s.0);
                let _ = p.abs_diff_eq(&q, 1e-9);
                let _ = p.relative_eq(&q, 1e-9, 1e-9);
                let _ = Log(Poly4([a[0], a[1], a[2], a[3], a[4]])).integral(Knot::new(b[0], b[1])).evaluate(v.0);
            });
            Outcome::Pass
        }
        Op::Pw { f, g, s, xs, knot } => {
            let ok = |e: &[f64]| !e.is_empty() && e.iter().all(|x| !x.is_nan()) && e.windows(2).all(|w| w[0] <= w[1]);
            if !ok(&f.ends_f()) || !ok(&g.ends_f()) || !s.0.is_finite() || !knot.0 .0.is_finite() || !knot.1 .0.is_finite() {
                return Outcome::Skip("soup: not well-formed");
            }
            let xs: Vec<f64> = xs.iter().map(|b| b.0).collect();
            let k = Knot::new(knot.0 .0, knot.1 .0);
            let (fq, gq) = (f.q4(), g.q4());
            let sum = lib!(&fq + &gq);
            let dif = lib!(&fq - &gq);
            tri!(eval3(&sum, &xs));
            tri!(eval3(&dif, &xs));
            tri!(eval3(&fq, &xs));
            lib!({
                let mut t = -(fq.clone() * s.0);
                t.translate(s.0);
                let _ = t.abs_diff_eq(&gq, 1e-9);
                let _ = t.relative_eq(&gq, 1e-9, 1e-9);
                let _ = t == gq;
            });
            let p3 = f.p3();
            tri!(eval3(&p3, &xs));
            lib!({
                let mut m = p3.clone();
                m *= s.0;
                let _ = (m * s.0).derivative().derivative().derivative();
                let _ = p3.integral(k).integral(k);
                let _ = p3.indefinite();
                let _ = (-p3.clone()).abs_diff_eq(&g.p3(), 1.0);
            });
            let l2 = g.l2();
            tri!(eval3(&l2, &xs));
            lib!({
                let i = l2.integral(k);
                for &x in &xs {
                    let _ = i.evaluate(x);
                }
                let _ = l2.indefinite();
                let mut m = l2.clone();
                m *= s.0;
                m.translate(s.0);
                let _ = m * s.0;
            });
            Outcome::Pass
        }
        Op::Arb { bytes, xs } => {
            let xs: Vec<f64> = xs.iter().map(|b| b.0).collect();
            let r = lib!(Piecewise::<Poly3>::arbitrary(&mut Unstructured::new(bytes)));
            if let Ok(pw) = r {
                tri!(eval3(&pw, &xs));
            }
            let r = lib!(Piecewise::<PolyN>::arbitrary(&mut Unstructured::new(bytes)));
            if let Ok(pw) = r {
                tri!(eval3(&pw, &xs));
            }
            lib!({
                let _ = Knot::arbitrary(&mut Unstructured::new(bytes));
                let _ = Poly8::arbitrary(&mut Unstructured::new(bytes));
                let _ = PolyN::arbitrary(&mut Unstructured::new(bytes));
            });
            Outcome::Pass
        }
    }
}

pub fn check(s: &Soup, ctx: &mut Ctx) -> Outcome {
    let mut skipped = 0;
    for (i, op) in s.ops.iter().enumerate() {
        ctx.label(match op {
            Op::Linear { .. } => "op:linear",
            Op::Spline { .. } => "op:spline",
            Op::Poly { .. } => "op:poly/log/intoflog",
            Op::PolyN { .. } => "op:polyN",
            Op::Quartic { .. } => "op:quartic",
            Op::Pw { .. } => "op:piecewise",
            Op::Arb { .. } => "op:arbitrary",
        });
        match check_op(op) {
            Outcome::Pass => {}
            Outcome::Skip(_) => skipped += 1,
            Outcome::Fail(m) => return Outcome::Fail(format!("operation #{i} ({op:?}): {m}")),
            o => return o,
        }
    }
    if skipped == s.ops.len() {
        return Outcome::Skip("soup: not well-formed");
    }
    ctx.nontrivial = s.ops.len() >= 3;
    Outcome::Pass
}
