#!/usr/bin/env bash
# tools/seed_run.sh <seeded/NAME> [extra property ids...] : run the checks against one kept seeded change.
# Applies patch.diff to /repo, runs the quick check of the property it breaks (and of any extra ids),
# undoes the change straight afterwards, and records the outcome in meta.json ("checks_run").
set -u
# evidence of runs against a modified /repo goes to a scratch directory, never to /verif/evidence
export VERIF_EVIDENCE_DIR="$(cd "$(dirname "$0")/.." && pwd)/work/evidence-scratch"; mkdir -p "$VERIF_EVIDENCE_DIR"
ROOT="$(cd "$(dirname "$0")/.." && pwd)"
D="$ROOT/${1%/}"; shift
[ -s "$D/patch.diff" ] || { echo "no patch in $D"; exit 2; }
git -C /repo diff --quiet || { echo "/repo has uncommitted changes; refusing"; exit 2; }
trap 'git -C /repo checkout -- . 2>/dev/null' EXIT
PROP=$(python3 -c "import json;print(json.load(open('$D/meta.json'))['breaks_property'])")
git -C /repo apply "$D/patch.diff" || { echo "patch does not apply to /repo"; exit 2; }
cd "$ROOT"
for p in $PROP "$@"; do
  start=$(date +%s)
  out=$(./check "$p" quick 2>&1); code=$?
  secs=$(( $(date +%s) - start ))
  if echo "$out" | grep -q "^VIOLATION property=$p"; then r="CAUGHT"; elif [ $code -eq 0 ]; then r="missed (silent)"; else r="exit=$code"; fi
  msg=$(echo "$out" | grep -A1 "^VIOLATION" | sed -n 2p | cut -c1-400)
  echo "$(basename "$D") $p: $r (${secs}s) $msg" | cut -c1-300
  python3 - "$D/meta.json" "$p" "$r" "$secs" "$msg" <<'PY'
import json,sys
f,p,r,secs,msg=sys.argv[1:6]
m=json.load(open(f)); m.setdefault("checks_run",{})[p]={"cmd":"./check %s quick (VERIF_SEED=1) with the patch applied to /repo, reverted afterwards"%p,"result":r,"seconds":int(secs),"first_violation":msg}
json.dump(m,open(f,"w"),indent=1)
PY
done
git -C /repo checkout -- .
rm -f "$ROOT"/replays/*
