//! Numeric oracle helpers on top of ppv-exact.

use ppv_exact::{d, Bf, Dy};

/// 2^-53
pub fn u() -> Dy {
    Dy::pow2(-53)
}

/// exact Σ c_i x^i
pub fn poly_exact(c: &[f64], x: &Dy) -> Dy {
    let mut acc = Dy::zero();
    for &ci in c.iter().rev() {
        acc = acc.mul(x).add(&d(ci));
    }
    acc
}
/// exact Σ |c_i| |x|^i
pub fn poly_abs(c: &[f64], x: &Dy) -> Dy {
    let ax = x.abs();
    let mut acc = Dy::zero();
    for &ci in c.iter().rev() {
        acc = acc.mul(&ax).add(&d(ci).abs());
    }
    acc
}
/// exact Σ i |c_i| |x|^(i-1)  (majorant of |p'|)
pub fn dpoly_abs(c: &[f64], x: &Dy) -> Dy {
    let ax = x.abs();
    let mut acc = Dy::zero();
    for i in (1..c.len()).rev() {
        acc = acc.mul(&ax).add(&d(c[i]).abs().mul_u64(i as u64));
    }
    acc
}
pub fn poly_bf(c: &[Bf], x: &Bf) -> Bf {
    let mut acc = Bf::zero();
    for ci in c.iter().rev() {
        acc = acc.mul(x).add(ci);
    }
    acc
}
pub fn poly_bf_f(c: &[f64], x: &Bf) -> Bf {
    let mut acc = Bf::zero();
    for &ci in c.iter().rev() {
        acc = acc.mul(x).add(&Bf::from_f64(ci));
    }
    acc
}
pub fn poly_abs_bf_f(c: &[f64], x: &Bf) -> Bf {
    let ax = x.abs();
    let mut acc = Bf::zero();
    for &ci in c.iter().rev() {
        acc = acc.mul(&ax).add(&Bf::from_f64(ci).abs());
    }
    acc
}

/// |got - exact| <= bound (exact inequality). `got` must be finite.
pub fn within(got: f64, exact: &Dy, bound: &Dy) -> bool {
    got.is_finite() && d(got).sub(exact).abs().le(bound)
}
/// ratio |got-exact|/bound as f64 for messages (inf if bound is 0 and error isn't)
pub fn ratio(got: f64, exact: &Dy, bound: &Dy) -> f64 {
    if !got.is_finite() {
        return f64::INFINITY;
    }
    let e = d(got).sub(exact).abs();
    if e.is_zero() {
        return 0.0;
    }
    if bound.is_zero() {
        return f64::INFINITY;
    }
    let q = Bf::from_dy(&e).div(&Bf::from_dy(bound));
    let t = q.0.top();
    if t > 1000 {
        f64::INFINITY
    } else if t < -1000 {
        0.0
    } else {
        q.to_f64()
    }
}

/// "no partial term overflows or underflows": v == 0 or 2^-lim <= |v| <= 2^lim
pub fn in_range(v: &Dy, lim: i64) -> bool {
    v.is_zero() || (v.top() >= -lim && v.top() <= lim)
}

/// unit in the last place of the binade of |q| as an exact dyadic (>= 2^-1074)
pub fn ulp_dy(q: &Dy) -> Dy {
    if q.is_zero() {
        return Dy::pow2(-1074);
    }
    Dy::pow2((q.top() - 52).max(-1074))
}

/// smallest f64 >= |x| (x given as Bf), nudged up once more for safety
pub fn f64_above(x: &Bf) -> f64 {
    let a = x.abs();
    let f = a.to_f64();
    ppv_exact::next_up(ppv_exact::next_up(f))
}

/// Is `got` within `k` ulps (of the binade of the exact quotient/product) of num/den?
/// Checked exactly: |got*den - num| <= k * ulp * |den|, ulp taken at max(|got|, |q|).
pub fn quotient_within_ulps(got: f64, num: &Dy, den: &Dy, k: u64) -> bool {
    if !got.is_finite() {
        return false;
    }
    let g = d(got);
    let resid = g.mul(den).sub(num).abs();
    // |q| >= |got| - ..., use the binade of got or of num/den whichever is larger:
    // top(q) is top(num)-top(den) or one less
    let mut top = i64::MIN;
    if !g.is_zero() {
        top = top.max(g.top());
    }
    if !num.is_zero() {
        let t = num.top() - den.top();
        // floor(log2 |num/den|) is t or t-1
        let tq = if num.abs().cmp(&den.abs().mul_pow2(t)) == std::cmp::Ordering::Less { t - 1 } else { t };
        top = top.max(tq);
    }
    let ulp = if top == i64::MIN { Dy::pow2(-1074) } else { Dy::pow2((top - 52).max(-1074)) };
    resid.le(&ulp.mul(&den.abs()).mul_u64(k))
}
