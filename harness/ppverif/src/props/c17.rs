//! C17 — approximate equality is number-by-number for every type.

use crate::fl::{hex, B};
use crate::gen;
use crate::model::{Flat, Nums};
use crate::runner::{idx, Ctx, Outcome, Prop, Tier};
use crate::{dispatch_deg, fail};
use approx::{AbsDiffEq, RelativeEq};
use arbitrary::Unstructured;
use piecewise_polynomial::*;
use proptest::collection::vec;
use proptest::prelude::*;
use serde::{Deserialize, Serialize};

pub const FAM_NAMES: [&str; 5] = ["PolyK", "Log<PolyK>", "IntOfLog<PolyK>", "IntOfLogPoly4", "PolyN"];
pub const LEVEL_NAMES: [&str; 3] = ["bare", "Segment<_>", "Piecewise<_>"];

#[derive(Clone, Debug, Hash, Serialize, Deserialize)]
pub struct Case {
    pub fam: u8,
    pub deg: u8,
    /// 0 the type itself, 1 Segment<T>, 2 Piecewise<T>
    pub level: u8,
    /// flat numbers of the two values (Piecewise: [end, piece numbers...] per segment)
    pub a: Vec<B>,
    pub b: Vec<B>,
    pub eps: B,
    pub maxrel: B,
}

pub struct C17;

struct Obs {
    abs_ab: bool,
    abs_ba: bool,
    rel_ab: bool,
    rel_ba: bool,
    abs_aa: bool,
    rel_aa: bool,
    eq: bool,
    abs_default_ab: bool,
    rel_default_ab: bool,
    def_eps: f64,
    def_rel: f64,
}

fn observe<T>(a: &T, b: &T, eps: f64, maxrel: f64) -> Result<Obs, String>
where
    T: AbsDiffEq<Epsilon = f64> + RelativeEq + PartialEq,
{
    crate::runner::lib(|| Obs {
        abs_ab: a.abs_diff_eq(b, eps),
        abs_ba: b.abs_diff_eq(a, eps),
        rel_ab: a.relative_eq(b, eps, maxrel),
        rel_ba: b.relative_eq(a, eps, maxrel),
        abs_aa: a.abs_diff_eq(a, eps),
        rel_aa: a.relative_eq(a, eps, maxrel),
        eq: a == b,
        abs_default_ab: approx::abs_diff_eq!(a, b),
        rel_default_ab: approx::relative_eq!(a, b),
        def_eps: T::default_epsilon(),
        def_rel: T::default_max_relative(),
    })
}

fn obs_level<T>(level: u8, a: &[f64], b: &[f64], eps: f64, maxrel: f64) -> Result<Obs, String>
where
    T: Nums + AbsDiffEq<Epsilon = f64> + RelativeEq + PartialEq,
{
    match level {
        0 => observe(&T::from_nums(a), &T::from_nums(b), eps, maxrel),
        1 => observe(&Segment::<T>::from_nums(a), &Segment::<T>::from_nums(b), eps, maxrel),
        _ => {
            let n = T::N + 1;
            let mk = |v: &[f64]| Piecewise { segments: v.chunks(n).map(Segment::<T>::from_nums).collect::<Vec<_>>() };
            observe(&mk(a), &mk(b), eps, maxrel)
        }
    }
}
fn obs_poly<P: Nums + AbsDiffEq<Epsilon = f64> + RelativeEq + PartialEq>(l: u8, a: &[f64], b: &[f64], e: f64, r: f64) -> Result<Obs, String> {
    obs_level::<P>(l, a, b, e, r)
}
fn obs_log<P: Nums + AbsDiffEq<Epsilon = f64> + RelativeEq + PartialEq>(l: u8, a: &[f64], b: &[f64], e: f64, r: f64) -> Result<Obs, String> {
    obs_level::<Log<P>>(l, a, b, e, r)
}
fn obs_iol<P: Nums + AbsDiffEq<Epsilon = f64> + RelativeEq + PartialEq>(l: u8, a: &[f64], b: &[f64], e: f64, r: f64) -> Result<Obs, String> {
    obs_level::<IntOfLog<P>>(l, a, b, e, r)
}

/// numbers per unit (piece / segment) for a (family, degree, level)
pub fn unit_len(fam: u8, deg: u8, level: u8) -> usize {
    let n = match fam {
        0 | 1 => deg as usize + 1,
        2 => deg as usize + 2,
        3 => 6,
        _ => 0, // PolyN: free length
    };
    if level == 0 {
        n
    } else {
        n + 1
    }
}

static TOLS: &[f64] = &[0.0, f64::EPSILON, 1e-9, 1.0, 1e300, 1e-3, 0.5, 0.25, 0.7, 0.01, 0.3, 2.0];

fn perturb(v: f64, kind: u8, f: u8, eps: f64, maxrel: f64) -> f64 {
    let fac = [0.5, 0.999, 1.0, 1.001, 2.0, 1e6, 0.25, 3.9][f as usize % 8];
    let sgn = if f & 8 == 0 { 1.0 } else { -1.0 };
    match kind % 8 {
        0 | 1 => v + sgn * eps * fac,
        2 | 3 => v * (1.0 + sgn * maxrel * fac),
        4 => -v,
        5 => gen::nudge(v, if sgn > 0.0 { 1 } else { -1 }),
        6 => {
            if v == 0.0 {
                -v
            } else {
                f64::INFINITY * sgn
            }
        }
        _ => v + sgn * fac * (eps.max(maxrel * v.abs())),
    }
}

impl Prop for C17 {
    type Case = Case;
    fn id(&self) -> &'static str {
        "C17"
    }
    fn rule(&self) -> String {
        "case = (type: {Poly0..8, Log<PolyK>, IntOfLog<PolyK>, IntOfLogPoly4} bare / in a Segment / in a Piecewise of 0..=5 pieces, or PolyN of length 0..=10; value a from non-NaN numbers (moderate, full range, ±inf rarely); b = a with 0, 1 or several numbers perturbed by an amount chosen relative to the tolerance (x0.25, 0.5, 0.999, exactly 1, 1.001, 2, 3.9, 1e6; either sign; absolute or relative), sign flips, ±0 swaps, one-ulp nudges, infinities, or an independent value, or a different length (PolyN / Piecewise); eps, max_relative from {0, f64::EPSILON, 1e-9, 1e-3, 0.01, 0.25, 0.3, 0.5, 0.7, 1, 2, 1e300}). Oracle: flatten both values by direct field access; expected = same length AND for every pair f64::abs_diff_eq (resp. f64::relative_eq) with the same tolerances. Checked for abs_diff_eq and relative_eq in both argument orders, for the macro forms with the type's own default tolerances (whatever their values), plus reflexivity on finite values and implication from ==. Non-trivial: same length and exactly one number differs by an amount within a factor 4 of the governing tolerance.".into()
    }
    fn assumptions(&self) -> Vec<String> {
        vec!["the f64 impls of the approx crate are the trusted primitive".into()]
    }
    fn cases(&self, tier: Tier) -> u64 {
        tier.pick(400_000, 4_000_000)
    }
    fn strategy(&self, _tier: Tier) -> BoxedStrategy<Case> {
        let num = prop_oneof![6 => gen::moderate(12), 2 => gen::any_non_nan(), 1 => gen::from_table(&[0.0, -0.0, 1.0, 1e-9, 1e9])];
        (
            (0u8..5, 0u8..9, 0u8..3, 0usize..=5, 0usize..=10, 0usize..=5),
            vec(num.clone(), 70),
            vec(num, 70),
            (0..TOLS.len(), 0..TOLS.len()),
            0u8..8,
            vec((any::<u16>(), any::<u8>(), any::<u8>()), 0..4),
        )
            .prop_map(|((fam, deg, level0, npieces, nlen, npieces_b), pa, pb, (ei, ri), mode, perts)| {
                let (eps, maxrel) = (TOLS[ei], TOLS[ri]);
                let level = if fam == 4 { 0 } else { level0 };
                let unit = unit_len(fam, deg, level);
                let la = if fam == 4 { nlen } else if level == 2 { unit * npieces } else { unit };
                let a: Vec<f64> = pa[..la].to_vec();
                let b: Vec<f64> = match mode {
                    // independent value of the same shape
                    0 => pb[..la].to_vec(),
                    // different length (only meaningful for PolyN / Piecewise)
                    1 if fam == 4 => pa[..(nlen + 1 + npieces_b).min(12)].to_vec(),
                    1 if level == 2 => pa[..unit * npieces_b].to_vec(),
                    // identical
                    2 => a.clone(),
                    // a with some numbers perturbed
                    _ => {
                        let mut b = a.clone();
                        if !b.is_empty() {
                            let k = if mode == 3 { 1 } else { perts.len() };
                            for (p, kind, f) in perts.iter().take(k.max(1)) {
                                let i = idx(*p, b.len());
                                b[i] = perturb(b[i], *kind, *f, eps, maxrel);
                                if b[i].is_nan() {
                                    b[i] = a[i];
                                }
                            }
                        }
                        b
                    }
                };
                Case { fam, deg, level, a: a.into_iter().map(B).collect(), b: b.into_iter().map(B).collect(), eps: B(eps), maxrel: B(maxrel) }
            })
            .boxed()
    }
    fn check(&self, case: &Case, ctx: &mut Ctx) -> Outcome {
        let (fam, deg, level) = (case.fam % 5, case.deg % 9, if case.fam % 5 == 4 { 0 } else { case.level % 3 });
        let a: Vec<f64> = case.a.iter().map(|v| v.0).collect();
        let b: Vec<f64> = case.b.iter().map(|v| v.0).collect();
        let (eps, maxrel) = (case.eps.0, case.maxrel.0);
        let unit = unit_len(fam, deg, level);
        let shape_ok = |v: &[f64]| {
            if fam == 4 {
                true
            } else if level == 2 {
                v.len() % unit == 0
            } else {
                v.len() == unit
            }
        };
        if !shape_ok(&a) || !shape_ok(&b) || a.iter().chain(b.iter()).any(|v| v.is_nan()) || !(eps >= 0.0) || !(maxrel >= 0.0) {
            return Outcome::Skip("malformed case");
        }
        let obs = match fam {
            0 => dispatch_deg!(deg, obs_poly(level, &a, &b, eps, maxrel)),
            1 => dispatch_deg!(deg, obs_log(level, &a, &b, eps, maxrel)),
            2 => dispatch_deg!(deg, obs_iol(level, &a, &b, eps, maxrel)),
            3 => obs_level::<IntOfLogPoly4>(level, &a, &b, eps, maxrel),
            _ => observe(&PolyN(a.clone()), &PolyN(b.clone()), eps, maxrel),
        };
        let o = match obs {
            Ok(o) => o,
            Err(m) => fail!("approx relation panicked: {m}"),
        };
        // reference: flatten (the case's numbers *are* the flat view; re-derive through Flat for the bare level as a cross-check)
        if level == 0 && fam == 3 {
            debug_assert_eq!(IntOfLogPoly4::from_nums(&a).flat(), a);
        }
        let same_len = a.len() == b.len();
        let want_abs = same_len && a.iter().zip(&b).all(|(x, y)| f64::abs_diff_eq(x, y, eps));
        let want_rel = same_len && a.iter().zip(&b).all(|(x, y)| f64::relative_eq(x, y, eps, maxrel));
        // "under the same tolerances": the macro forms use the TYPE's own defaults, whatever they are
        let want_abs_d = same_len && a.iter().zip(&b).all(|(x, y)| f64::abs_diff_eq(x, y, o.def_eps));
        let want_rel_d = same_len && a.iter().zip(&b).all(|(x, y)| f64::relative_eq(x, y, o.def_eps, o.def_rel));
        let tyname = format!("{} {} (degree {deg})", LEVEL_NAMES[level as usize], FAM_NAMES[fam as usize]);
        ctx.label(FAM_NAMES[fam as usize]);
        ctx.label(LEVEL_NAMES[level as usize]);
        ctx.comparisons += 8;
        let describe = || format!("{tyname}: a={a:?} b={b:?} eps={} max_relative={}", hex(eps), hex(maxrel));
        if o.abs_ab != want_abs || o.abs_ba != want_abs {
            fail!("abs_diff_eq gives {}/{} (a~b / b~a) but the number-by-number conjunction is {want_abs}: {}", o.abs_ab, o.abs_ba, describe());
        }
        if o.rel_ab != want_rel {
            fail!("relative_eq(a,b) gives {} but the number-by-number conjunction is {want_rel}: {}", o.rel_ab, describe());
        }
        let want_rel_ba = same_len && b.iter().zip(&a).all(|(x, y)| f64::relative_eq(x, y, eps, maxrel));
        if o.rel_ba != want_rel_ba {
            fail!("relative_eq(b,a) gives {} but the number-by-number conjunction is {want_rel_ba}: {}", o.rel_ba, describe());
        }
        if o.abs_default_ab != want_abs_d || o.rel_default_ab != want_rel_d {
            fail!("default-tolerance macros give abs {} rel {} but number-by-number gives abs {want_abs_d} rel {want_rel_d}: {}", o.abs_default_ab, o.rel_default_ab, describe());
        }
        // comparing a value with ITSELF (the very same object) must follow the number-by-number rule too
        // (it is false for an infinite number under abs_diff_eq: |inf - inf| is NaN)
        let want_abs_aa = a.iter().all(|x| f64::abs_diff_eq(x, x, eps));
        let want_rel_aa = a.iter().all(|x| f64::relative_eq(x, x, eps, maxrel));
        if o.abs_aa != want_abs_aa || o.rel_aa != want_rel_aa {
            fail!("comparing a value with itself (same object): abs_diff_eq {} / relative_eq {} but number-by-number gives {want_abs_aa} / {want_rel_aa}: {}", o.abs_aa, o.rel_aa, describe());
        }
        let a_finite = a.iter().all(|v| v.is_finite());
        if a_finite && (!o.abs_aa || !o.rel_aa) {
            fail!("not reflexive on a finite value: abs {} rel {}: {}", o.abs_aa, o.rel_aa, describe());
        }
        // corollary of the number-by-number rule only where the f64 relation itself is implied by ==,
        // i.e. on finite values (f64::abs_diff_eq(inf, inf, e) is false in the approx crate: |inf-inf| is NaN)
        if o.eq && a_finite && (!o.abs_ab || !o.rel_ab) {
            fail!("a == b but not approximately equal: {}", describe());
        }
        // (what `==` itself means on these types is not part of this property - only that it implies the approximate
        // relations, checked above; a stricter PartialEq, e.g. one that separates 0.0 from -0.0, is compatible)
        // labels / non-triviality
        if !same_len {
            ctx.label("different-length");
        } else {
            let diffs: Vec<usize> = (0..a.len()).filter(|&i| a[i].to_bits() != b[i].to_bits()).collect();
            ctx.label(match diffs.len() {
                0 => "identical",
                1 => "one-number-differs",
                _ => "several-differ",
            });
            if diffs.len() == 1 {
                let i = diffs[0];
                let dlt = (a[i] - b[i]).abs();
                let tol_abs = eps;
                let tol_rel = eps.max(maxrel * a[i].abs().max(b[i].abs()));
                let near = |t: f64| t > 0.0 && dlt >= t / 4.0 && dlt <= t * 4.0;
                if near(tol_abs) || near(tol_rel) {
                    ctx.nontrivial = true;
                    ctx.label(if want_abs { "near-tolerance:abs-holds" } else { "near-tolerance:abs-fails" });
                    ctx.label(if want_rel { "near-tolerance:rel-holds" } else { "near-tolerance:rel-fails" });
                    ctx.label(if i == 0 { "perturbed:first-number" } else if i + 1 == a.len() { "perturbed:last-number" } else { "perturbed:middle-number" });
                }
            }
        }
        Outcome::Pass
    }
    fn from_bytes(&self, u: &mut Unstructured) -> Option<Case> {
        let fam: u8 = u.arbitrary::<u8>().ok()? % 5;
        let deg: u8 = u.arbitrary::<u8>().ok()? % 9;
        let level = if fam == 4 { 0 } else { u.arbitrary::<u8>().ok()? % 3 };
        let unit = unit_len(fam, deg, level);
        let np = (u.arbitrary::<u8>().ok()? % 5) as usize;
        let la = if fam == 4 { np * 2 } else if level == 2 { unit * np } else { unit };
        let eps = TOLS[u.arbitrary::<u8>().ok()? as usize % TOLS.len()];
        let maxrel = TOLS[u.arbitrary::<u8>().ok()? as usize % TOLS.len()];
        let mut a = Vec::with_capacity(la);
        for _ in 0..la {
            a.push(super::c02::fuzz_f64(u)?);
        }
        let mut b = a.clone();
        let nper = u.arbitrary::<u8>().ok()? % 4;
        for _ in 0..nper {
            if b.is_empty() {
                break;
            }
            let (p, kind, f): (u16, u8, u8) = u.arbitrary().ok()?;
            let i = idx(p, b.len());
            let nv = perturb(b[i], kind, f, eps, maxrel);
            if !nv.is_nan() {
                b[i] = nv;
            }
        }
        if u.arbitrary::<u8>().ok()? % 16 == 0 && (fam == 4 || level == 2) {
            let cut = if fam == 4 { 1 } else { unit };
            if b.len() >= cut {
                b.truncate(b.len() - cut);
            }
        }
        Some(Case { fam, deg, level, a: a.into_iter().map(B).collect(), b: b.into_iter().map(B).collect(), eps: B(eps), maxrel: B(maxrel) })
    }
    fn size(&self, c: &Case) -> usize {
        c.a.len()
    }
}
