#![no_main]
// libFuzzer target for property C02: the bytes are decoded (arbitrary::Unstructured) into the same
// Case type the proptest strategy produces and judged by the same oracle (ppverif::props).
use libfuzzer_sys::fuzz_target;
fuzz_target!(|data: &[u8]| {
    ppverif::fuzz_entry("C02", data);
});
