//! C04 / C05 — the constrained (Kruger) cubic spline. One generator and one exact
//! reference; two properties, two verdicts.

use crate::fl::{hex, B};
use crate::gen;
use crate::num::*;
use crate::runner::{Ctx, Outcome, Prop, Tier};
use crate::{fail, lib};
use piecewise_polynomial::*;
use ppv_exact::{d, next_up, Bf, Dy};
use proptest::collection::vec;
use proptest::prelude::*;
use serde::{Deserialize, Serialize};
use std::cmp::Ordering;

#[derive(Clone, Debug, Hash, Serialize, Deserialize)]
pub struct Case {
    pub xs: Vec<B>,
    pub ys: Vec<B>,
}

/// K of DESIGN.md §3.3: coefficients of the returned cubics deviate from the exact spline by at
/// most K·u·shadow. Analysis gives <= ~30, measured worst ~6; the checks use 64.
pub const K: u64 = 64;

/// The exact constrained spline (384-bit arithmetic with exact sign decisions) and
/// the magnitude shadows of its construction.
pub struct Reference {
    /// secant slopes
    pub s: Vec<Bf>,
    /// knot derivatives and their magnitude shadows
    pub m: Vec<Bf>,
    pub m_sh: Vec<Bf>,
    /// per interval: [a,b,c,d] and shadows
    pub coef: Vec<[Bf; 4]>,
    pub shadow: Vec<[Bf; 4]>,
    /// every intermediate within 2^±900 (or exactly 0)
    pub in_domain: bool,
}

fn ok(v: &Bf) -> bool {
    v.is_zero() || (v.0.top() >= -900 && v.0.top() <= 900)
}

pub fn kruger(xs: &[f64], ys: &[f64]) -> Reference {
    let n = xs.len();
    let mut dom = true;
    let bf = Bf::from_f64;
    // secants (dy, dx exact; sign of the slope exact)
    let dx: Vec<Dy> = (0..n - 1).map(|i| d(xs[i + 1]).sub(&d(xs[i]))).collect();
    let dy: Vec<Dy> = (0..n - 1).map(|i| d(ys[i + 1]).sub(&d(ys[i]))).collect();
    let s: Vec<Bf> = (0..n - 1).map(|i| Bf::from_dy(&dy[i]).div(&Bf::from_dy(&dx[i]))).collect();
    for i in 0..n - 1 {
        dom &= ok(&s[i]) && ok(&Bf::from_dy(&dx[i])) && ok(&Bf::from_dy(&dy[i]));
        // the difference must not be a tiny residue of huge operands in a way that underflows: covered by ok()
    }
    // knot derivatives
    let mut m = vec![Bf::zero(); n];
    let mut m_sh = vec![Bf::zero(); n];
    for i in 1..n - 1 {
        let sg = dy[i - 1].sign() * dy[i].sign(); // dx > 0
        if sg <= 0 {
            m[i] = Bf::zero();
            // shadow: the library may compute the harmonic mean of tiny slopes and must still be ~0:
            // magnitude of what the branch decides on is min(|s|) in the zero case -> use 0 (exact zero expected)
            m_sh[i] = Bf::zero();
        } else {
            let prod = s[i - 1].mul(&s[i]);
            // slope01*slope12 is an intermediate of the construction (the library uses its sign; the classic form
            // 2ab/(a+b) of the harmonic mean uses its value): it must neither overflow nor underflow, and the
            // reciprocals / the mean must stay in range
            dom &= ok(&prod) && ok(&s[i - 1].recip()) && ok(&s[i].recip());
            m[i] = Bf::from_i64(2).div(&s[i - 1].recip().add(&s[i].recip()));
            m_sh[i] = m[i].abs();
        }
    }
    let half = Bf::one().mul_pow2(-1);
    let three_half = Bf::from_i64(3).mul_pow2(-1);
    m[0] = three_half.mul(&s[0]).sub(&half.mul(&m[1]));
    m_sh[0] = three_half.mul(&s[0].abs()).add(&half.mul(&m_sh[1]));
    m[n - 1] = three_half.mul(&s[n - 2]).sub(&half.mul(&m[n - 2]));
    m_sh[n - 1] = three_half.mul(&s[n - 2].abs()).add(&half.mul(&m_sh[n - 2]));
    let mut coef = Vec::with_capacity(n - 1);
    let mut shadow = Vec::with_capacity(n - 1);
    for i in 0..n - 1 {
        let (x0, x1, y0) = (bf(xs[i]), bf(xs[i + 1]), bf(ys[i]));
        let h = Bf::from_dy(&dx[i]);
        let sl = &s[i];
        let (f0, f1) = (&m[i], &m[i + 1]);
        let (f0s, f1s) = (&m_sh[i], &m_sh[i + 1]);
        let two = Bf::from_i64(2);
        let three = Bf::from_i64(3);
        let f0dd = two.mul(&three.mul(sl).sub(&f1.add(&two.mul(f0)))).div(&h);
        let f1dd = two.mul(&two.mul(f1).add(f0).sub(&three.mul(sl))).div(&h);
        let f0dd_s = two.mul(&three.mul(&sl.abs()).add(&f1s.add(&two.mul(f0s)))).div(&h);
        let f1dd_s = two.mul(&two.mul(f1s).add(f0s).add(&three.mul(&sl.abs()))).div(&h);
        let dd = f1dd.sub(&f0dd).div(&h).div_u64(6);
        let dd_s = f1dd_s.add(&f0dd_s).div(&h).div_u64(6);
        let cc = x1.mul(&f0dd).sub(&x0.mul(&f1dd)).div(&h).mul_pow2(-1);
        let cc_s = x1.abs().mul(&f0dd_s).add(&x0.abs().mul(&f1dd_s)).div(&h).mul_pow2(-1);
        let x0x0 = x0.mul(&x0);
        let q = x1.mul(&x1).add(&x1.mul(&x0)).add(&x0x0);
        let q_s = x1.mul(&x1).add(&x1.mul(&x0).abs()).add(&x0x0);
        let bb = sl.sub(&cc.mul(&x1.add(&x0))).sub(&dd.mul(&q));
        let bb_s = sl.abs().add(&cc_s.mul(&x1.abs().add(&x0.abs()))).add(&dd_s.mul(&q_s));
        let aa = y0.sub(&bb.mul(&x0)).sub(&cc.mul(&x0x0)).sub(&dd.mul(&x0x0).mul(&x0));
        let aa_s = y0.abs().add(&bb_s.mul(&x0.abs())).add(&cc_s.mul(&x0x0)).add(&dd_s.mul(&x0x0).mul(&x0.abs()));
        for v in [&f0dd_s, &f1dd_s, &dd_s, &cc_s, &bb_s, &aa_s, &q_s] {
            dom &= ok(v);
        }
        coef.push([aa, bb, cc, dd]);
        shadow.push([aa_s, bb_s, cc_s, dd_s]);
    }
    for v in m_sh.iter() {
        dom &= ok(v);
    }
    Reference { s, m, m_sh, coef, shadow, in_domain: dom }
}

/// knot sequences: strictly increasing abscissae by construction
pub fn knots_strategy(tier: Tier) -> BoxedStrategy<Case> {
    let nmax = tier.pick(10usize, 48usize);
    let nlong = tier.pick(140usize, 300usize);
    let offsets = prop_oneof![
        4 => Just(0.0),
        1 => gen::from_table(&[1e3, -1e3, 1e6, -1e6, 1e9, -1e9]),
        2 => gen::scaled(-3, 10),
    ];
    let steps = prop_oneof![
        // uniform
        2 => (gen::scaled_pos(-4, 4), 2usize..48).prop_map(|(h, n)| vec![h; n]),
        // wild
        3 => vec(gen::scaled_pos(-10, 10), 2..48),
        // mixed with one-ulp steps (0 => next_up)
        1 => vec(prop_oneof![3 => gen::scaled_pos(-6, 6), 1 => Just(0.0)], 2..48),
        // integers
        2 => vec((1i32..=5).prop_map(|i| i as f64), 2..48),
    ];
    let pattern = 0u8..13;
    (prop_oneof![9 => 3usize..=nmax, 1 => (nmax + 1)..=nlong], offsets, steps, pattern, vec(gen::moderate(12), 48), (prop_oneof![8 => -20i32..=20, 2 => -250i32..=250, 1 => -440i32..=440], gen::scaled(-6, 6), gen::moderate(8)), gen::common_scale(100))
        .prop_map(|(n, x0, steps, pat, rnd, (scale_e, slope, icpt), xscale)| {
            let mut xs = Vec::with_capacity(n);
            let mut x = x0;
            xs.push(x);
            for i in 0..n - 1 {
                let st = steps[i % steps.len()];
                let nx = x + st;
                x = if nx > x { nx } else { next_up(x) };
                xs.push(x);
            }
            // common abscissa scale (exact power of two): the construction is homogeneous in x as well
            if xscale != 1.0 && xs.iter().all(|v| (v * xscale).is_finite() && (*v == 0.0 || (v * xscale).abs() > 1e-280)) {
                for v in xs.iter_mut() {
                    *v *= xscale;
                }
            }
            let sc = 2.0f64.powi(scale_e);
            let ys: Vec<f64> = (0..n)
                .map(|i| {
                    let r = rnd[i % rnd.len()];
                    match pat {
                        0 => (0..=i).map(|k| rnd[k % rnd.len()].abs() + 0.125).sum::<f64>() * sc, // monotone increasing
                        1 => (if i % 2 == 0 { r.abs() } else { -r.abs() }) * sc,            // oscillating
                        2 => rnd[(i / 2 * 2) % rnd.len()] * sc,                                // plateaus (repeated y)
                        3 => slope * xs[i] + icpt + r * 1e-15 * (slope * xs[i]).abs(),      // nearly collinear
                        4 => {
                            // exactly collinear dyadic line when xs are moderate dyadics
                            let s2 = (slope * 8.0).round() / 8.0;
                            s2 * xs[i] + icpt
                        }
                        5 => -((0..=i).map(|k| rnd[k % rnd.len()].abs()).sum::<f64>()) * sc, // monotone non-increasing with possible flats
                        6 => {
                            // single peak
                            let mid = n / 2;
                            let dd = (i as i64 - mid as i64).abs() as f64;
                            (10.0 - dd * (1.0 + r.abs() * 0.1)) * sc
                        }
                        12 => {
                            // secant slopes in exact geometric progression (ratio 2 or 1/2) on the generated grid:
                            // harmonic means of neighbours then stand in exact relations to the secants
                            let ratio: f64 = [0.5, 2.0, 1.5, 3.0, 0.75, 1.0 / 3.0][((icpt.abs() * 16.0) as usize) % 6];
                            let s0 = ((slope * 4.0).round() / 4.0).max(0.25) * if r >= 0.0 || i > 0 { 1.0 } else { 1.0 };
                            let mut y = 0.0;
                            let mut sl = s0;
                            for k in 0..i {
                                y += sl * (xs[k + 1] - xs[k]);
                                sl *= ratio;
                            }
                            y * sc
                        }
                        10 | 11 => {
                            // polyline: exactly collinear runs that start at interior kinks (what re-sampling the
                            // output of linear() on a finer grid gives); exact when the abscissae are small integers
                            let kink1 = n / 3;
                            let kink2 = if pat == 10 { n } else { 2 * n / 3 };
                            let s1 = (slope * 8.0).round() / 8.0;
                            let s2 = -((icpt * 4.0).round() / 4.0) - 0.5;
                            let seg = |from: usize, to: usize, sl: f64| sl * (xs[to] - xs[from]);
                            let y = if i <= kink1 {
                                seg(0, i, s1)
                            } else if i <= kink2 {
                                seg(0, kink1, s1) + seg(kink1, i, s2)
                            } else {
                                seg(0, kink1, s1) + seg(kink1, kink2.min(n - 1), s2) + seg(kink2.min(n - 1), i, s1 * 0.5 + 1.0)
                            };
                            y * sc
                        }
                        8 | 9 => {
                            // few distinct ordinates incl. signed zeros: plateaus of three and more equal values,
                            // staircases, flat runs of +0.0 / -0.0
                            let lv = [0.0, -0.0, 1.0, -1.0, 0.5];
                            let k = ((r.abs() * 8.0) as usize + i / 3) % if pat == 8 { 5 } else { 2 };
                            lv[k] * if pat == 8 { sc } else { 1.0 }
                        }
                        _ => r * sc,
                    }
                })
                .collect();
            Case { xs: xs.into_iter().map(B).collect(), ys: ys.into_iter().map(B).collect() }
        })
        .boxed()
}

pub struct Prepared {
    pub xs: Vec<f64>,
    pub ys: Vec<f64>,
    pub reference: Reference,
    pub result: Piecewise<Poly3>,
    pub collinear: bool,
}

/// shared front part: precondition check, reference, library call, labels
pub fn prepare(case: &Case, ctx: &mut Ctx) -> Result<Prepared, Outcome> {
    let xs: Vec<f64> = case.xs.iter().map(|b| b.0).collect();
    let ys: Vec<f64> = case.ys.iter().map(|b| b.0).collect();
    let n = xs.len();
    if n < 3 || ys.len() != n || xs.iter().chain(ys.iter()).any(|v| !v.is_finite()) || xs.windows(2).any(|w| !(w[0] < w[1])) {
        return Err(Outcome::Skip("precondition: >=3 knots with strictly increasing finite abscissae"));
    }
    let reference = kruger(&xs, &ys);
    if !reference.in_domain {
        return Err(Outcome::Skip("an intermediate of the construction is outside 2^±900"));
    }
    let knots: Vec<Knot> = xs.iter().zip(&ys).map(|(&x, &y)| Knot::new(x, y)).collect();
    let result = match crate::runner::lib(|| constrained_spline(&knots)) {
        Ok(r) => r,
        Err(m) => return Err(Outcome::Fail(format!("constrained_spline panicked on admissible knots {knots:?}: {m}"))),
    };
    // labels
    let cond = (0..n - 1).map(|i| (xs[i].abs().max(xs[i + 1].abs()) / (xs[i + 1] - xs[i])).max(1.0)).fold(1.0f64, f64::max);
    ctx.label(if cond < 16.0 { "conditioning |x|/dx < 16" } else if cond < 1e4 { "conditioning |x|/dx < 1e4" } else if cond < 1e8 { "conditioning |x|/dx < 1e8" } else { "conditioning |x|/dx >= 1e8" });
    let signs: Vec<i32> = reference.s.iter().map(|s| s.sign()).collect();
    let changes = signs.windows(2).filter(|w| w[0] * w[1] <= 0).count();
    ctx.label(match changes {
        0 => "no extremum/plateau knot",
        1 => "1 extremum/plateau knot",
        _ => ">=2 extremum/plateau knots",
    });
    if signs.iter().any(|s| *s == 0) {
        ctx.label("flat secant present");
    }
    // exactly collinear <=> all secants equal: dy_i·dx_0 == dy_0·dx_i (exact cross-multiplication)
    let dx0 = d(xs[1]).sub(&d(xs[0]));
    let dy0 = d(ys[1]).sub(&d(ys[0]));
    let collinear = (1..n - 1).all(|i| {
        let dxi = d(xs[i + 1]).sub(&d(xs[i]));
        let dyi = d(ys[i + 1]).sub(&d(ys[i]));
        dyi.mul(&dx0) == dy0.mul(&dxi)
    });
    if collinear {
        ctx.label("exactly collinear");
    }
    ctx.label(if n <= 4 { "3-4 knots" } else if n <= 10 { "5-10 knots" } else { ">10 knots" });
    Ok(Prepared { xs, ys, reference, result, collinear })
}

fn dy_of(c: &[f64; 4]) -> [Dy; 4] {
    [d(c[0]), d(c[1]), d(c[2]), d(c[3])]
}
fn cubic_at(c: &[Dy; 4], x: &Dy) -> Dy {
    c[3].mul(x).add(&c[2]).mul(x).add(&c[1]).mul(x).add(&c[0])
}
fn dcubic_at(c: &[Dy; 4], x: &Dy) -> Dy {
    c[3].mul_u64(3).mul(x).add(&c[2].mul_u64(2)).mul(x).add(&c[1])
}
/// K·u·(Ā + B̄|x| + C̄x² + D̄|x|³), rounded up to a dyadic
fn val_tol(sh: &[Bf; 4], ax: &Bf) -> Dy {
    let t = sh[3].mul(ax).add(&sh[2]).mul(ax).add(&sh[1]).mul(ax).add(&sh[0]);
    t.0.round_up_abs(128).mul(&u()).mul_u64(K)
}
/// K·u·(B̄ + 2C̄|x| + 3D̄x²)
fn der_tol(sh: &[Bf; 4], ax: &Bf) -> Dy {
    let t = sh[3].mul_i64(3).mul(ax).add(&sh[2].mul_i64(2)).mul(ax).add(&sh[1]);
    t.0.round_up_abs(128).mul(&u()).mul_u64(K)
}
fn bfmax(a: f64, b: f64) -> Bf {
    Bf::from_f64(a.abs().max(b.abs()))
}

// ---------------------------------------------------------------------------

pub struct C04;

impl Prop for C04 {
    type Case = Case;
    fn id(&self) -> &'static str {
        "C04"
    }
    fn rule(&self) -> String {
        "case = knot sequence of 3..=10 (thorough 48) knots; abscissae strictly increasing by construction (x_(i+1) = max(x_i+step, next_up(x_i))): offsets {0, ±1e3, ±1e6, ±1e9, random}, steps uniform / wild 2^±10 / one-ulp / integer; ordinates monotone, oscillating, plateaued, nearly collinear (line + few-ulp noise), exactly collinear, non-increasing with flats, single peak, few distinct ordinates (plateaus of >=3 equal values, runs of +0.0/-0.0), polylines (exactly collinear runs starting at interior kinks), secant slopes in exact geometric progression, random; abscissae additionally times a common power of two 2^k (k in ±100, 30% of cases); 1 case in 10 has 11..140 (thorough ..300) knots; scales 2^±20, 2^±250 (2/11) or 2^±440 (1/11). Oracle: the exact Kruger construction in 384-bit arithmetic with exact sign decisions, and its magnitude shadows (every subtraction replaced by an addition of magnitudes). Checked: (1) n-1 pieces, end_i bit-identical to x_(i+1); (2) every returned cubic, evaluated EXACTLY at both of its knots, is within 64u·(Ā+B̄|x|+C̄x²+D̄|x|³) of the ordinate, and through Evaluate::evaluate with the C01 bound added; (3) at every interior knot the exact derivatives of the two adjacent returned cubics agree with each other and with the exact knot slope (harmonic mean or 0), at the end knots with 3/2·Δ - 1/2·m, within 64u·(B̄+2C̄|x|+3D̄x²); the same through derivative().evaluate(). Domain: every intermediate of the construction within 2^±900 (else counted as excluded). Non-trivial: not exactly collinear and >= 4 knots.".into()
    }
    fn assumptions(&self) -> Vec<String> {
        vec!["K = 64 (DESIGN.md §3.3) is the harness's reading of 'a small multiple of 2^-53 times the magnitudes of the intermediate terms'".into()]
    }
    fn cases(&self, tier: Tier) -> u64 {
        tier.pick(150_000, 800_000)
    }
    fn strategy(&self, tier: Tier) -> BoxedStrategy<Case> {
        knots_strategy(tier)
    }
    fn check(&self, case: &Case, ctx: &mut Ctx) -> Outcome {
        let p = match prepare(case, ctx) {
            Ok(p) => p,
            Err(o) => return o,
        };
        let (xs, ys, rf, res) = (&p.xs, &p.ys, &p.reference, &p.result);
        let n = xs.len();
        ctx.nontrivial = n >= 4 && !p.collinear;
        // (1) structure
        ctx.comparisons += 1;
        if res.segments.len() != n - 1 {
            fail!("constrained_spline returned {} pieces for {} knots", res.segments.len(), n);
        }
        for i in 0..n - 1 {
            if res.segments[i].end.to_bits() != xs[i + 1].to_bits() {
                fail!("piece #{i} ends at {} instead of the interval's right abscissa {}", hex(res.segments[i].end), hex(xs[i + 1]));
            }
        }
        let dres = lib!(res.derivative());
        // (2) interpolation, (3) derivative continuity
        for i in 0..n - 1 {
            let c = res.segments[i].poly.0;
            if c.iter().any(|v| !v.is_finite()) {
                fail!("piece #{i} has non-finite coefficients {:?} (knots x={:?} y={:?})", c, xs, ys);
            }
            let cd = dy_of(&c);
            let ax = bfmax(xs[i], xs[i + 1]);
            let vt = val_tol(&rf.shadow[i], &ax);
            let dt = der_tol(&rf.shadow[i], &ax);
            for (which, k) in [(0usize, i), (1, i + 1)] {
                let xk = d(xs[k]);
                let v = cubic_at(&cd, &xk);
                ctx.comparisons += 2;
                if !v.sub(&d(ys[k])).abs().le(&vt) {
                    fail!(
                        "piece #{i} {:?} does not pass through its {} knot ({}, {}): exact value there is {} (allowed deviation {}); knots x={:?} y={:?}",
                        c, ["left", "right"][which], hex(xs[k]), hex(ys[k]), v.show(), vt.show(), xs, ys
                    );
                }
                let r = Bf::from_dy(&v.sub(&d(ys[k])).abs());
                if !r.is_zero() && !vt.is_zero() {
                    ctx.ratio("interpolation: |S(x_k)-y_k| / (64u·shadow)", r.div(&Bf::from_dy(&vt)).to_f64());
                }
                // through Evaluate (adds the C01 evaluation bound 4(3+2)u·S)
                let ev = lib!(res.segments[i].poly.evaluate(xs[k]));
                let s = poly_abs(&c, &xk);
                let vt2 = vt.add(&u().mul(&s).mul_u64(20));
                if !within(ev, &d(ys[k]), &vt2) {
                    fail!("piece #{i} {:?}.evaluate({}) = {} but the knot ordinate is {} (allowed {}); knots x={:?} y={:?}", c, hex(xs[k]), hex(ev), hex(ys[k]), vt2.show(), xs, ys);
                }
                // derivative at this knot vs the exact knot slope
                let dv = dcubic_at(&cd, &xk);
                let want = &rf.m[k];
                ctx.comparisons += 2;
                let derr = Bf::from_dy(&dv).sub(want).abs();
                // reference slope itself is rounded at 2^-380: negligible; widen by dt·2^-200
                if derr.0.cmp(&dt.add(&dt.mul_pow2(-200))) == Ordering::Greater {
                    fail!(
                        "piece #{i} {:?}: first derivative at its {} knot x={} is {} but the constrained-spline slope there ({}) is {} (allowed deviation {}); knots x={:?} y={:?}",
                        c, ["left", "right"][which], hex(xs[k]), dv.show(),
                        if k == 0 || k == n - 1 { "3/2·secant - 1/2·neighbour slope" } else { "harmonic mean of the adjacent secants, or 0" },
                        want.dy().show(), dt.show(), xs, ys
                    );
                }
                if !derr.is_zero() && !dt.is_zero() {
                    ctx.ratio("knot slope: |S'(x_k)-m_k| / (64u·shadow)", derr.div(&Bf::from_dy(&dt)).to_f64());
                }
                // through derivative().evaluate(): C01 bound for degree 2 plus coefficient rounding
                let dev = lib!(dres.segments[i].poly.evaluate(xs[k]));
                let dcoef = [c[1], 2.0 * c[2], 3.0 * c[3]];
                let ds = poly_abs(&dcoef, &xk);
                let dt2 = dt.add(&u().mul(&ds).mul_u64(18));
                if !dev.is_finite() || Bf::from_f64(dev).sub(want).abs().0.cmp(&dt2) == Ordering::Greater {
                    fail!("derivative().evaluate({}) of piece #{i} = {} but the knot slope is {} (allowed {}); knots x={:?} y={:?}", hex(xs[k]), hex(dev), want.dy().show(), dt2.show(), xs, ys);
                }
            }
            // adjacent cubics agree at the interior knot
            if i + 1 < n - 1 {
                let c2 = dy_of(&res.segments[i + 1].poly.0);
                let xk = d(xs[i + 1]);
                let (d1, d2) = (dcubic_at(&cd, &xk), dcubic_at(&c2, &xk));
                let ax2 = bfmax(xs[i + 1], xs[i + 2]);
                let tol = dt.add(&der_tol(&rf.shadow[i + 1], &ax2));
                ctx.comparisons += 1;
                if !d1.sub(&d2).abs().le(&tol) {
                    fail!("first derivatives of pieces #{i} and #{} differ at the knot x={}: {} vs {} (allowed {}); knots x={:?} y={:?}", i + 1, hex(xs[i + 1]), d1.show(), d2.show(), tol.show(), xs, ys);
                }
            }
        }
        Outcome::Pass
    }
    fn size(&self, c: &Case) -> usize {
        c.xs.len()
    }
}

// ---------------------------------------------------------------------------

pub struct C05;

impl Prop for C05 {
    type Case = Case;
    fn id(&self) -> &'static str {
        "C05"
    }
    fn rule(&self) -> String {
        "same generator and exact reference as C04. Oracle: (1) every returned coefficient a,b,c,d within 64u·(its magnitude shadow) of the exact Kruger coefficient (so collinear knots reproduce the line: exact c=d=0); (2) no overshoot / monotone on every knot interval, decided from the critical points of the RETURNED cubic, not by sampling: the sign of the discriminant of S' is decided exactly, roots are located with the cancellation-free quadratic formula, clipped to the interval, and S is evaluated exactly at the f64 nearest to each root and its ±2 neighbours and at both ends: min(y_i,y_(i+1)) - tol <= S <= max + tol; sign(Δy)·S' >= -tol' at both ends and at the vertex of S' when it lies inside; (3) whenever the adjacent exact secant slopes differ in sign or one is zero, |S'(knot)| <= tol' for both adjacent cubics. Non-trivial: >= 1 interior knot where the secant slopes change sign or vanish (the branch no test executes).".into()
    }
    fn assumptions(&self) -> Vec<String> {
        vec!["K = 64 as in C04".into()]
    }
    fn cases(&self, tier: Tier) -> u64 {
        tier.pick(150_000, 800_000)
    }
    fn strategy(&self, tier: Tier) -> BoxedStrategy<Case> {
        knots_strategy(tier)
    }
    fn check(&self, case: &Case, ctx: &mut Ctx) -> Outcome {
        let p = match prepare(case, ctx) {
            Ok(p) => p,
            Err(o) => return o,
        };
        let (xs, ys, rf, res) = (&p.xs, &p.ys, &p.reference, &p.result);
        let n = xs.len();
        let signs: Vec<i32> = rf.s.iter().map(|s| s.sign()).collect();
        ctx.nontrivial = signs.windows(2).any(|w| w[0] * w[1] <= 0);
        if res.segments.len() != n - 1 {
            fail!("constrained_spline returned {} pieces for {} knots", res.segments.len(), n);
        }
        for i in 0..n - 1 {
            let c = res.segments[i].poly.0;
            if c.iter().any(|v| !v.is_finite()) {
                fail!("piece #{i} has non-finite coefficients {:?} (knots x={:?} y={:?})", c, xs, ys);
            }
            // (1) coefficient agreement with the exact spline
            for j in 0..4 {
                let tol = rf.shadow[i][j].0.round_up_abs(128).mul(&u()).mul_u64(K);
                let err = Bf::from_f64(c[j]).sub(&rf.coef[i][j]).abs();
                ctx.comparisons += 1;
                if err.0.cmp(&tol.add(&tol.mul_pow2(-200))) == Ordering::Greater {
                    fail!(
                        "piece #{i}: coefficient {} is {} but the exact constrained spline has {} (deviation allowed: {} = 64u·shadow); knots x={:?} y={:?}",
                        ["a", "b", "c", "d"][j], hex(c[j]), rf.coef[i][j].dy().show(), tol.show(), xs, ys
                    );
                }
                if !err.is_zero() && !tol.is_zero() {
                    ctx.ratio("coefficient: |X - X_exact| / (64u·shadow)", err.div(&Bf::from_dy(&tol)).to_f64());
                }
            }
            // (2) no overshoot, monotone — from the critical points of the returned cubic
            let cd = dy_of(&c);
            let ax = bfmax(xs[i], xs[i + 1]);
            let vt = val_tol(&rf.shadow[i], &ax);
            let dt = der_tol(&rf.shadow[i], &ax);
            let (xl, xr) = (xs[i], xs[i + 1]);
            let (lo, hi) = if ys[i] <= ys[i + 1] { (ys[i], ys[i + 1]) } else { (ys[i + 1], ys[i]) };
            let mut cands: Vec<f64> = vec![xl, xr];
            // S'(x) = b + 2c x + 3d x^2 ; discriminant/4 = c^2 - 3bd (exact)
            let disc = cd[2].mul(&cd[2]).sub(&cd[1].mul(&cd[3]).mul_u64(3));
            let push_near = |r: f64, cands: &mut Vec<f64>| {
                if !r.is_finite() {
                    return;
                }
                for k in -2i32..=2 {
                    let t = gen::nudge(r, k);
                    if t >= xl && t <= xr {
                        cands.push(t);
                    }
                }
            };
            if !cd[3].is_zero() {
                if disc.sign() >= 0 {
                    // q = -(c + sign(c)·sqrt(disc)); roots q/(3d) and b/q
                    let sqf = sqrt_bf(&Bf::from_dy(&disc));
                    let sq = if sqf.is_finite() { Bf::from_f64(sqf) } else { Bf::zero() };
                    let cb = Bf::from_dy(&cd[2]);
                    let q = if cd[2].sign() >= 0 { cb.add(&sq).neg() } else { cb.sub(&sq).neg() };
                    if sqf.is_finite() && !q.is_zero() {
                        push_near(q.div(&Bf::from_dy(&cd[3]).mul_i64(3)).to_f64(), &mut cands);
                        push_near(Bf::from_dy(&cd[1]).div(&q).to_f64(), &mut cands);
                    }
                }
                // vertex of S'
                let xv = Bf::from_dy(&cd[2]).neg().div(&Bf::from_dy(&cd[3]).mul_i64(3)).to_f64();
                push_near(xv, &mut cands);
            } else if !cd[2].is_zero() {
                push_near(Bf::from_dy(&cd[1]).neg().div(&Bf::from_dy(&cd[2]).mul_i64(2)).to_f64(), &mut cands);
            }
            let sgn = rf.s[i].sign();
            for &t in &cands {
                let td = d(t);
                let v = cubic_at(&cd, &td);
                ctx.comparisons += 2;
                if v.lt(&d(lo).sub(&vt)) || d(hi).add(&vt).lt(&v) {
                    fail!(
                        "overshoot: piece #{i} {:?} takes the value {} at x={} inside [{}, {}], outside the knot ordinates [{}, {}] (tolerance {}); knots x={:?} y={:?}",
                        c, v.show(), hex(t), hex(xl), hex(xr), hex(lo), hex(hi), vt.show(), xs, ys
                    );
                }
                let dv = dcubic_at(&cd, &td);
                let signed = if sgn >= 0 { dv.clone() } else { dv.neg() };
                // monotone in the direction of the secant (flat secant: |S'| <= tol both ways)
                let bad = if sgn == 0 { !dv.abs().le(&dt) } else { signed.lt(&dt.neg()) };
                if bad {
                    fail!(
                        "not monotone: piece #{i} {:?} has slope {} at x={} inside [{}, {}] although the ordinates go from {} to {} (tolerance {}); knots x={:?} y={:?}",
                        c, dv.show(), hex(t), hex(xl), hex(xr), hex(ys[i]), hex(ys[i + 1]), dt.show(), xs, ys
                    );
                }
            }
            // (3) flat at data extrema / plateaus
            for (which, k) in [(0usize, i), (1, i + 1)] {
                if k == 0 || k == n - 1 {
                    continue;
                }
                if signs[k - 1] * signs[k] <= 0 {
                    let dv = dcubic_at(&cd, &d(xs[k]));
                    ctx.comparisons += 1;
                    if !dv.abs().le(&dt) {
                        fail!(
                            "piece #{i} {:?}: slope at its {} knot x={} is {} but the adjacent secant slopes ({}, {}) differ in sign or vanish, so it must be 0 (tolerance {}); knots x={:?} y={:?}",
                            c, ["left", "right"][which], hex(xs[k]), dv.show(), rf.s[k - 1].to_f64(), rf.s[k].to_f64(), dt.show(), xs, ys
                        );
                    }
                }
            }
        }
        Outcome::Pass
    }
    fn size(&self, c: &Case) -> usize {
        c.xs.len()
    }
}

/// sqrt of a non-negative Bf as f64-precision value (scaled to avoid over/underflow)
fn sqrt_bf(v: &Bf) -> f64 {
    if v.is_zero() {
        return 0.0;
    }
    let t = v.0.top();
    let e = t - (t.rem_euclid(2)); // even
    let m = v.mul_pow2(-e).to_f64(); // in [1,4)
    let r = m.sqrt();
    // r * 2^(e/2) — may exceed f64 range only if v is outside 2^±2000, excluded by the domain
    let half = e / 2;
    if (-1000..=1000).contains(&half) {
        r * ppv_exact::pow2_f64(half)
    } else {
        f64::NAN
    }
}
