//! C18 — serialization round-trips every value bit for bit.

use crate::fl::B;
use crate::gen;
use crate::model::{bits_eq, Flat, Nums};
use crate::runner::{Ctx, Outcome, Prop, Tier};
use crate::{dispatch_deg, fail};
use arbitrary::Unstructured;
use piecewise_polynomial::*;
use proptest::collection::vec;
use proptest::prelude::*;
use serde::de::DeserializeOwned;
use serde::{Deserialize, Serialize};

#[cfg(feature = "borsh")]
pub trait Wire: Serialize + DeserializeOwned + borsh::BorshSerialize + borsh::BorshDeserialize {}
#[cfg(feature = "borsh")]
impl<T: Serialize + DeserializeOwned + borsh::BorshSerialize + borsh::BorshDeserialize> Wire for T {}
#[cfg(not(feature = "borsh"))]
pub trait Wire: Serialize + DeserializeOwned {}
#[cfg(not(feature = "borsh"))]
impl<T: Serialize + DeserializeOwned> Wire for T {}

#[cfg(feature = "borsh")]
pub const NFMT: u8 = 3;
#[cfg(not(feature = "borsh"))]
pub const NFMT: u8 = 2;
pub const FMT_NAMES: [&str; 3] = ["serde_json", "serde_cbor", "borsh"];
pub const FAM_NAMES: [&str; 5] = ["PolyK", "Log<PolyK>", "IntOfLog<PolyK>", "IntOfLogPoly4", "Knot"];
pub const LEVEL_NAMES: [&str; 3] = ["bare", "Segment<_>", "Piecewise<_>"];

#[derive(Clone, Debug, Hash, Serialize, Deserialize)]
pub struct Case {
    pub fam: u8,
    pub deg: u8,
    pub level: u8,
    pub fmt: u8,
    pub nums: Vec<B>,
}

pub struct C18;

fn roundtrip<T>(v: &T, fmt: u8) -> Result<(), String>
where
    T: Wire + PartialEq + Flat + std::fmt::Debug,
{
    let back: T = match fmt {
        0 => {
            let s = serde_json::to_string(v).map_err(|e| format!("serde_json serialize error: {e}"))?;
            serde_json::from_str(&s).map_err(|e| format!("serde_json deserialize error: {e} (text: {s})"))?
        }
        1 => {
            let b = serde_cbor::to_vec(v).map_err(|e| format!("serde_cbor serialize error: {e}"))?;
            serde_cbor::from_slice(&b).map_err(|e| format!("serde_cbor deserialize error: {e}"))?
        }
        #[cfg(feature = "borsh")]
        2 => {
            let b = borsh::to_vec(v).map_err(|e| format!("borsh serialize error: {e}"))?;
            borsh::from_slice(&b).map_err(|e| format!("borsh deserialize error: {e}"))?
        }
        _ => return Err("format not available in this build".into()),
    };
    if back != *v {
        return Err(format!("decoded value != original: {back:?} vs {v:?}"));
    }
    if !bits_eq(&back.flat(), &v.flat()) {
        return Err(format!("decoded value compares == but its numbers differ in bits: {:?} vs {:?}", back.flat(), v.flat()));
    }
    Ok(())
}

fn rt_level<T>(level: u8, nums: &[f64], fmt: u8) -> Result<(), String>
where
    T: Nums + Wire + PartialEq,
{
    let r = crate::runner::lib(|| match level {
        0 => roundtrip(&T::from_nums(nums), fmt),
        1 => roundtrip(&Segment::<T>::from_nums(nums), fmt),
        _ => {
            let n = T::N + 1;
            roundtrip(&Piecewise { segments: nums.chunks(n).map(Segment::<T>::from_nums).collect::<Vec<_>>() }, fmt)
        }
    });
    match r {
        Ok(x) => x,
        Err(m) => Err(format!("panicked: {m}")),
    }
}
fn rt_poly<P: Nums + Wire + PartialEq>(l: u8, n: &[f64], f: u8) -> Result<(), String> {
    rt_level::<P>(l, n, f)
}
fn rt_log<P: Nums + Wire + PartialEq>(l: u8, n: &[f64], f: u8) -> Result<(), String> {
    rt_level::<Log<P>>(l, n, f)
}
fn rt_iol<P: Nums + Wire + PartialEq>(l: u8, n: &[f64], f: u8) -> Result<(), String> {
    rt_level::<IntOfLog<P>>(l, n, f)
}

pub fn unit_len(fam: u8, deg: u8, level: u8) -> usize {
    let n = match fam {
        0 | 1 => deg as usize + 1,
        2 => deg as usize + 2,
        3 => 6,
        _ => 2,
    };
    if level == 0 || fam == 4 {
        n
    } else {
        n + 1
    }
}

static HARD: &[f64] = &[
    -0.0,
    0.0,
    5e-324,
    -5e-324,
    2.2250738585072014e-308,
    2.225073858507201e-308,
    f64::MAX,
    -f64::MAX,
    0.1,
    0.30000000000000004,
    1.7976931348623157e308,
    9007199254740993.0,
    9007199254740992.0,
    123456789012345680.0,
    1.2345678901234567,
    0.3333333333333333,
    5e-324 * 3.0,
    65504.0,
    65505.0,
    1.0000000000000002,
    3.4028234663852886e38,
    3.4028235677973366e38,
    1e23,
    8.41e21,
    5.960464477539063e-8,
    6.103515625e-5,
];

impl Prop for C18 {
    type Case = Case;
    fn id(&self) -> &'static str {
        "C18"
    }
    fn rule(&self) -> String {
        format!("case = (type: Knot, Poly0..8, Log<PolyK>, IntOfLog<PolyK>, IntOfLogPoly4, bare / Segment<_> / Piecewise<_> with 0..=16 segments, and (1 case in 200, plus a deterministic boundary scope) MANY segments: 2^k-1, 2^k, 2^k+1 for k = 6..16 and random counts up to 70 000; 1 case in 50 plants an exact relation (quartic form with u = 24·c4 or a float neighbour; ends in arithmetic progression built by accumulation or as start + i·h); format uniform over the {} formats of this build ({:?}); numbers: hard table (subnormals, -0.0, ±MAX, MIN_POSITIVE and its predecessor, 17-digit decimals, 2^53+1, f16/f32 boundary values that serde_cbor's float shrinking must not confuse), full-range random bit patterns, moderate values, integers; ±inf only for the binary formats (JSON has no inf)). Oracle: decode(encode(v)) == v AND the flattened numbers (direct field access) are bit-identical. This build: borsh feature {}. Non-trivial: the value contains a number that is not integer-valued and (Piecewise) has >= 2 segments.", NFMT, &FMT_NAMES[..NFMT as usize], if NFMT == 3 { "ON (serde formats are exercised again in this configuration)" } else { "OFF" })
    }
    fn assumptions(&self) -> Vec<String> {
        vec!["three wire formats stand for 'serde': serde_json (float_roundtrip), serde_cbor, and borsh (feature build); a format-specific attribute for another format would not be seen".into()]
    }
    fn cases(&self, tier: Tier) -> u64 {
        tier.pick(200_000, 2_000_000)
    }
    fn strategy(&self, _tier: Tier) -> BoxedStrategy<Case> {
        let finite = prop_oneof![3 => gen::from_table(HARD), 3 => gen::any_finite(), 2 => gen::moderate(30), 1 => any::<u64>().prop_map(|b| { let f = f64::from_bits(b); if f.is_finite() { f } else { 1.5 } })];
        let non_nan = prop_oneof![10 => finite.clone(), 1 => gen::from_table(&[f64::INFINITY, f64::NEG_INFINITY])];
        let small = ((0u8..5, 0u8..9, 0u8..3, 0u8..NFMT, 0usize..=16), vec(finite.clone(), 190), vec(non_nan, 190)).prop_map(|((fam, deg, level0, fmt, npieces), fin, nn)| {
            let level = if fam == 4 { 0 } else { level0 };
            let unit = unit_len(fam, deg, level);
            let n = if level == 2 { unit * npieces } else { unit };
            let src = if fmt == 0 { &fin } else { &nn };
            Case { fam, deg, level, fmt, nums: src[..n].iter().map(|&v| B(v)).collect() }
        });
        // "any number of segments": piecewise functions with many segments, sizes around powers of two
        // (natural buffer / pre-allocation limits) and random sizes up to 70 000
        let sizes = prop_oneof![
            3 => (6u32..=16, 0usize..3).prop_map(|(k, d)| (1usize << k) + d - 1),
            1 => 17usize..70_000,
        ];
        let large = (0u8..4, 0u8..2, 0u8..NFMT, sizes, vec(finite, 16)).prop_map(|(fam, deg, fmt, npieces, pool)| {
            let unit = unit_len(fam, deg, 2);
            let nums: Vec<B> = (0..unit * npieces).map(|i| B(pool[(i * 7 + i / 16) % pool.len()])).collect();
            Case { fam, deg, level: 2, fmt, nums }
        });
        // exact relations inside one value: a quartic form whose u is 24·c4 or one of its float neighbours (what
        // Log<Poly4>::indefinite produces for a cubic integrand), and piecewise functions whose ends form an
        // arithmetic progression, built by accumulation (x += h) or as start + i·h, also through zero
        let related = (0u8..NFMT, 0u8..4, gen::moderate(8), gen::from_table(&[0.1, 0.07, 0.3, 1.0, 0.25, 1e-3, 7.0]), 3usize..40, -20i32..=20, vec(gen::moderate(6), 8)).prop_map(|(fmt, mode, c4, h, n, start, pool)| {
            match mode {
                0 | 1 => {
                    let u = 24.0 * c4;
                    let u = [u, ppv_exact::next_up(u), ppv_exact::next_down(u), u][(pool[0].to_bits() % 4) as usize];
                    let nums = vec![pool[1], pool[2], pool[3], pool[4], c4, u];
                    let level = mode; // bare or inside a Segment
                    let mut v: Vec<f64> = if level == 1 { vec![pool[5]] } else { vec![] };
                    v.extend(nums);
                    Case { fam: 3, deg: 0, level, fmt, nums: v.into_iter().map(B).collect() }
                }
                _ => {
                    let mut ends = Vec::with_capacity(n);
                    let x0 = start as f64 * h;
                    let mut x = x0;
                    for i in 0..n {
                        ends.push(if mode == 2 { x } else { x0 + i as f64 * h });
                        x += h;
                    }
                    let nums: Vec<B> = ends.iter().enumerate().flat_map(|(i, &e)| vec![B(e), B(pool[i % pool.len()])]).collect();
                    Case { fam: 0, deg: 0, level: 2, fmt, nums }
                }
            }
        });
        prop_oneof![195 => small, 1 => large, 4 => related].boxed()
    }
    fn check(&self, case: &Case, ctx: &mut Ctx) -> Outcome {
        let (fam, deg) = (case.fam % 5, case.deg % 9);
        let level = if fam == 4 { 0 } else { case.level % 3 };
        let fmt = case.fmt;
        let nums: Vec<f64> = case.nums.iter().map(|v| v.0).collect();
        if fmt >= NFMT {
            return Outcome::Skip("format not in this build");
        }
        let unit = unit_len(fam, deg, level);
        let ok_shape = if level == 2 { nums.len() % unit == 0 } else { nums.len() == unit };
        if !ok_shape || nums.iter().any(|v| v.is_nan()) || (fmt == 0 && nums.iter().any(|v| !v.is_finite())) {
            return Outcome::Skip("malformed case / non-finite number for a text format");
        }
        ctx.label(FMT_NAMES[fmt as usize]);
        ctx.label(FAM_NAMES[fam as usize]);
        ctx.label(LEVEL_NAMES[level as usize]);
        if nums.iter().any(|v| *v != 0.0 && v.abs() < f64::MIN_POSITIVE) {
            ctx.label("has-subnormal");
        }
        if nums.iter().any(|v| *v == 0.0 && v.is_sign_negative()) {
            ctx.label("has-negative-zero");
        }
        if nums.iter().any(|v| v.is_infinite()) {
            ctx.label("has-inf");
        }
        let nseg = if level == 2 { nums.len() / unit } else { 1 };
        ctx.nontrivial = nums.iter().any(|v| v.is_finite() && v.fract() != 0.0) && (level != 2 || nseg >= 2);
        ctx.comparisons += 1;
        let r = match fam {
            0 => dispatch_deg!(deg, rt_poly(level, &nums, fmt)),
            1 => dispatch_deg!(deg, rt_log(level, &nums, fmt)),
            2 => dispatch_deg!(deg, rt_iol(level, &nums, fmt)),
            3 => rt_level::<IntOfLogPoly4>(level, &nums, fmt),
            _ => match crate::runner::lib(|| roundtrip(&Knot::new(nums[0], nums[1]), fmt)) {
                Ok(x) => x,
                Err(m) => Err(format!("panicked: {m}")),
            },
        };
        if let Err(m) = r {
            let shown: Vec<f64> = nums.iter().cloned().take(24).collect();
            let m: String = m.chars().take(1200).collect();
            fail!(
                "{} round trip of {} {} (degree {deg}, {} segment(s), {} numbers; first numbers {:?}): {m}",
                FMT_NAMES[fmt as usize], LEVEL_NAMES[level as usize], FAM_NAMES[fam as usize], nseg, nums.len(), shown
            );
        }
        Outcome::Pass
    }
    fn extras(&self, _tier: Tier, _seed: u64, shard: u32, nshards: u32, sink: &mut dyn FnMut(Case, &'static str)) {
        // deterministic size boundaries for every format of this build and two piece types
        let mut n = 0u32;
        for fmt in 0..NFMT {
            for (fam, deg) in [(0u8, 0u8), (0, 3), (2, 1), (3, 0)] {
                for k in [8u32, 12, 16] {
                    for d in 0..3usize {
                        n += 1;
                        if n % nshards != shard {
                            continue;
                        }
                        let npieces = (1usize << k) + d - 1;
                        let unit = unit_len(fam, deg, 2);
                        let nums: Vec<B> = (0..unit * npieces).map(|i| B(HARD[8 + (i * 5 + i / 9) % 12] + i as f64)).collect();
                        sink(Case { fam, deg, level: 2, fmt, nums }, "segment-count-boundaries");
                    }
                }
            }
        }
    }
    fn exhaustive_scopes(&self, _tier: Tier) -> Vec<String> {
        vec!["Piecewise of 2^k-1, 2^k, 2^k+1 segments for k in {8,12,16} x 4 piece types x every format of the build".into()]
    }
    fn from_bytes(&self, u: &mut Unstructured) -> Option<Case> {
        let fam: u8 = u.arbitrary::<u8>().ok()? % 5;
        let deg: u8 = u.arbitrary::<u8>().ok()? % 9;
        let level = if fam == 4 { 0 } else { u.arbitrary::<u8>().ok()? % 3 };
        let fmt = u.arbitrary::<u8>().ok()? % NFMT;
        let unit = unit_len(fam, deg, level);
        let n = if level == 2 { unit * (u.arbitrary::<u8>().ok()? % 6) as usize } else { unit };
        let mut nums = Vec::with_capacity(n);
        for _ in 0..n {
            let b: u64 = u.arbitrary().ok()?;
            let mut f = f64::from_bits(b);
            if f.is_nan() || (fmt == 0 && !f.is_finite()) {
                f = HARD[(b % HARD.len() as u64) as usize];
            }
            nums.push(B(f));
        }
        Some(Case { fam, deg, level, fmt, nums })
    }
    fn size(&self, c: &Case) -> usize {
        c.nums.len()
    }
}

impl Flat for Vec<f64> {
    fn flat(&self) -> Vec<f64> {
        self.clone()
    }
}
