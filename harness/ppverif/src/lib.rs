//! Property-based testing / fuzzing harness for `piecewise_polynomial`
//! (see /verif/DESIGN.md).

pub mod bench_data;
pub mod findings;
pub mod fl;
pub mod gen;
pub mod logint;
pub mod model;
pub mod num;
pub mod props;
pub mod runner;

pub use runner::{DynProp, Tier};

/// Self-tests of the oracle machinery (exit 2, never a violation, when they fail).
pub fn self_test() -> Vec<String> {
    let mut e = ppv_exact::self_test();
    e.extend(model::model_self_test());
    e.extend(logint::self_test());
    e
}
