//! C13 — piecewise addition and subtraction are pointwise on the merged breakpoints.

use super::c02::fuzz_f64;
use super::c10::{kf1_matches, KF1_SIG};
use super::common::{enumerate_multisets, has_duplicates};
use crate::bench_data::BENCH;
use crate::fl::{hex, B};
use crate::gen;
use crate::logint::{quartic_value, tol_1e12};
use crate::model::{nums_eq, q4, select, Flat};
use crate::runner::{idx, Ctx, Outcome, Prop, Tier};
use crate::{fail, lib};
use arbitrary::Unstructured;
use piecewise_polynomial::*;
use ppv_exact::Bf;
use proptest::collection::vec;
use proptest::prelude::*;
use serde::{Deserialize, Serialize};
use std::cmp::Ordering;

#[derive(Clone, Debug, Hash, Serialize, Deserialize)]
pub struct Operand {
    pub ends: Vec<B>,
    /// 6 numbers per piece (k, c1..c4, u); empty = tag pieces
    pub nums: Vec<B>,
}

#[derive(Clone, Debug, Hash, Serialize, Deserialize)]
pub struct Case {
    pub f: Operand,
    pub g: Operand,
    /// false: &f + &g, true: &f - &g
    pub sub: bool,
    pub extra: Vec<B>,
}

pub struct C13;

fn build(op: &Operand, tag_scale: f64) -> Piecewise<IntOfLogPoly4> {
    Piecewise {
        segments: op
            .ends
            .iter()
            .enumerate()
            .map(|(i, e)| {
                let poly = if op.nums.len() >= 6 * (i + 1) {
                    let v: Vec<f64> = op.nums[6 * i..6 * i + 6].iter().map(|b| b.0).collect();
                    q4(&v)
                } else {
                    // tag piece: every field encodes the index (distinct per field so a field mix-up shows)
                    let t = i as f64 * tag_scale;
                    IntOfLogPoly4 { k: t, coeffs: [t + 0.25, t + 0.5, t + 0.75, t + 0.125], u: -t }
                };
                Segment { end: e.0, poly }
            })
            .collect(),
    }
}

fn well_formed(e: &[f64]) -> bool {
    !e.is_empty() && e.iter().all(|x| !x.is_nan()) && e.windows(2).all(|w| w[0] <= w[1])
}

pub fn check_case(c: &Case, ctx: &mut Ctx) -> Outcome {
    let fe: Vec<f64> = c.f.ends.iter().map(|b| b.0).collect();
    let ge: Vec<f64> = c.g.ends.iter().map(|b| b.0).collect();
    if !well_formed(&fe) || !well_formed(&ge) || c.f.nums.iter().chain(c.g.nums.iter()).any(|v| !v.0.is_finite()) {
        return Outcome::Skip("not well-formed");
    }
    let f = build(&c.f, 1.0);
    let g = build(&c.g, 64.0);
    let opname = if c.sub { "&f - &g" } else { "&f + &g" };
    let r = if c.sub { lib!(&f - &g) } else { lib!(&f + &g) };
    let re: Vec<f64> = r.segments.iter().map(|s| s.end).collect();
    let describe = || format!("{opname} with f ends {fe:?}, g ends {ge:?} -> result ends {re:?}");
    ctx.label(if c.sub { "sub" } else { "add" });
    ctx.label(if c.f.nums.is_empty() { "tag pieces" } else { "value pieces" });
    // ---- clause 1: structure ----
    ctx.comparisons += 1;
    if re.is_empty() {
        fail!("result has no pieces: {}", describe());
    }
    if re.iter().any(|x| x.is_nan()) || re.windows(2).any(|w| !(w[0] <= w[1])) {
        fail!("result breakpoints are not non-decreasing: {}", describe());
    }
    for (i, e) in re.iter().enumerate() {
        if !fe.iter().chain(ge.iter()).any(|x| x.to_bits() == e.to_bits() || (*x == 0.0 && *e == 0.0)) {
            fail!("result breakpoint #{i} = {} is not a breakpoint of either operand: {}", hex(*e), describe());
        }
    }
    if re.len() > fe.len() + ge.len() - 1 {
        fail!("result has {} pieces, more than len(f)+len(g)-1 = {}: {}", re.len(), fe.len() + ge.len() - 1, describe());
    }
    // ---- clause 2: at every x of the union alphabet the selected result piece is op(f piece, g piece) ----
    let mut all_ends = fe.clone();
    all_ends.extend_from_slice(&ge);
    let extra: Vec<f64> = c.extra.iter().map(|b| b.0).filter(|x| !x.is_nan()).collect();
    let alpha = gen::alphabet(&all_ends, &extra, false);
    for &x in &alpha {
        let (i, j, k) = (select(&fe, x), select(&ge, x), select(&re, x));
        let (a, b) = (f.segments[i].poly.flat(), g.segments[j].poly.flat());
        let want: Vec<f64> = a.iter().zip(&b).map(|(p, q)| if c.sub { p - q } else { p + q }).collect();
        let got = r.segments[k].poly.flat();
        ctx.comparisons += 1;
        if !nums_eq(&got, &want) {
            fail!(
                "at x = {}: direct evaluation selects piece #{i} of f and piece #{j} of g, but the piece of the result selected at x (#{k}) is {:?} instead of their coefficient-wise {} {:?}; {}",
                hex(x), got, if c.sub { "difference" } else { "sum" }, want, describe()
            );
        }
    }
    // ---- clause 3: value clause at a few positive points ----
    let mut judged = 0;
    let mut known_excluded = 0;
    for &x in alpha.iter().filter(|x| **x > 0.0 && x.is_finite()) {
        if judged >= 3 {
            break;
        }
        let (i, j) = (select(&fe, x), select(&ge, x));
        let (a, b) = (f.segments[i].poly.flat(), g.segments[j].poly.flat());
        let rp = r.segments[select(&re, x)].poly.flat();
        if ctx.open(KF1_SIG) && (kf1_matches(&a, x) || kf1_matches(&b, x) || (rp.iter().all(|v| v.is_finite()) && kf1_matches(&rp, x))) {
            known_excluded += 1;
            continue;
        }
        let (ea, ma) = quartic_value(a[0], &[a[1], a[2], a[3], a[4]], a[5], x);
        let (eb, mb) = quartic_value(b[0], &[b[1], b[2], b[3], b[4]], b[5], x);
        let m = ma.add(&mb);
        if m.is_zero() || m.0.top() > 800 || m.0.top() < -800 {
            continue;
        }
        // sums of coefficients must not overflow
        if r.segments[select(&re, x)].poly.flat().iter().any(|v| !v.is_finite()) {
            continue;
        }
        let exact = if c.sub { ea.sub(&eb) } else { ea.add(&eb) };
        let got = lib!(r.evaluate(x));
        let bound = tol_1e12().mul(&m).mul_i64(3);
        ctx.comparisons += 1;
        judged += 1;
        if !got.is_finite() || Bf::from_f64(got).sub(&exact).abs().cmp(&bound) == Ordering::Greater {
            fail!("({opname})({}) = {} but f(x) {} g(x) = {} (allowed 3e-12·(M_f+M_g) = {}); {}", hex(x), hex(got), if c.sub { "-" } else { "+" }, exact.dy().show(), bound.dy().show(), describe());
        }
    }
    if judged > 0 {
        ctx.label("value clause judged");
    }
    if known_excluded > 0 {
        ctx.label("value clause: some x excluded by known finding KF1");
    }
    // ---- labels ----
    let same = fe.len() == ge.len() && fe.iter().zip(&ge).all(|(a, b)| a == b);
    if same {
        ctx.label("identical ends");
    }
    if has_duplicates(&fe) || has_duplicates(&ge) {
        ctx.label("duplicate-ends");
    }
    if fe.len() == 1 || ge.len() == 1 {
        ctx.label("single-piece operand");
    }
    if fe[fe.len() - 1] < ge[ge.len() - 1] {
        ctx.label("f exhausted first");
    } else if fe[fe.len() - 1] > ge[ge.len() - 1] {
        ctx.label("g exhausted first");
    } else {
        ctx.label("last ends equal");
    }
    if fe.iter().any(|a| ge.iter().any(|b| a == b)) && !same {
        ctx.label("some shared ends");
    }
    let set = |v: &[f64]| {
        let mut s: Vec<u64> = v.iter().map(|x| if *x == 0.0 { 0 } else { x.to_bits() }).collect();
        s.sort();
        s.dedup();
        s
    };
    ctx.nontrivial = fe.len() >= 2 && ge.len() >= 2 && set(&fe) != set(&ge);
    Outcome::Pass
}

impl Prop for C13 {
    type Case = Case;
    fn id(&self) -> &'static str {
        "C13"
    }
    fn rule(&self) -> String {
        "case = (pair of segment lists drawn from ONE shared lattice (interleaved, nested, identical, prefix-of-each-other, duplicate ends, ±0, ±inf, adjacent floats; 1..=L pieces each, L=8 quick / 24 thorough); pieces are IntOfLogPoly4: tag pieces (fields encode the piece index: i for f, 64j for g) or value pieces with random finite fields or the repository's benchmark pieces; operator + or -). Oracle: (1) result non-empty, ends non-decreasing, every end equal to an end of f or g, len <= len f + len g - 1; (2) for every x of the union alphabet (all ends of either operand, ±1 ulp, midpoints, beyond both, ±inf, ±MAX, ±0): the piece the selection model picks in the result at x equals, field by field, op(piece of f selected at x, piece of g selected at x) computed with plain f64 +/-; (3) at up to 3 positive x: (f op g)(x) vs the 384-bit f(x) op g(x) within 3e-12·(M_f+M_g). Non-trivial: both operands >=2 pieces with different end sets. Extra: all pairs of sorted multisets of <=3 ends over a 4-point lattice x both operators.".into()
    }
    fn cases(&self, tier: Tier) -> u64 {
        tier.pick(200_000, 2_000_000)
    }
    fn strategy(&self, tier: Tier) -> BoxedStrategy<Case> {
        let l = tier.pick(8usize, 24usize);
        let num = prop_oneof![4 => gen::moderate(30), 1 => gen::any_finite()];
        (
            (0u8..20, vec(gen::any_non_nan(), 1..8)),
            prop_oneof![9 => vec(any::<u16>(), 1..=l), 1 => vec(any::<u16>(), 1..=60)],
            prop_oneof![9 => vec(any::<u16>(), 1..=l), 1 => vec(any::<u16>(), 1..=60)],
            (0u8..4, any::<bool>(), any::<u16>()),
            vec(num, 6 * 60),
            vec(gen::any_non_nan(), 2),
        )
            .prop_map(|((kind, custom), pf, pg, (mode, sub, bi), pool, extra)| {
                let lat = gen::ends_lattice(kind, &custom, false);
                let pick = |p: &[u16]| {
                    let mut e: Vec<f64> = p.iter().map(|&q| lat[idx(q, lat.len())]).collect();
                    e.sort_by(|a, b| a.partial_cmp(b).unwrap());
                    e
                };
                let (fe, ge) = (pick(&pf), pick(&pg));
                let ge = if mode == 3 { fe.clone() } else { ge }; // identical ends
                let mk = |e: &[f64], off: usize| -> Vec<B> {
                    match mode {
                        0 => Vec::new(), // tag pieces
                        1 => (0..e.len() * 6).map(|i| B(BENCH[(bi as usize + off + i / 6) % BENCH.len()].1[i % 6])).collect(),
                        _ => (0..e.len() * 6).map(|i| B(pool[(i + off * 7) % pool.len()])).collect(),
                    }
                };
                let (fn_, gn) = (mk(&fe, 0), mk(&ge, 11));
                Case {
                    f: Operand { ends: fe.into_iter().map(B).collect(), nums: fn_ },
                    g: Operand { ends: ge.into_iter().map(B).collect(), nums: gn },
                    sub,
                    extra: extra.into_iter().map(B).collect(),
                }
            })
            .boxed()
    }
    fn check(&self, c: &Case, ctx: &mut Ctx) -> Outcome {
        check_case(c, ctx)
    }
    fn extras(&self, tier: Tier, _seed: u64, shard: u32, nshards: u32, sink: &mut dyn FnMut(Case, &'static str)) {
        let lat4 = vec![-0.0, 0.0, 1.0, ppv_exact::next_up(1.0)];
        let lat5 = vec![-1.0, -0.0, 0.0, 1.0, ppv_exact::next_up(1.0)];
        let (lat, maxn) = tier.pick((lat4, 3), (lat5, 4));
        let lists = enumerate_multisets(&lat, maxn);
        let mut n = 0u32;
        for fe in &lists {
            for ge in &lists {
                n += 1;
                if n % nshards != shard {
                    continue;
                }
                for sub in [false, true] {
                    sink(
                        Case {
                            f: Operand { ends: fe.iter().map(|&e| B(e)).collect(), nums: vec![] },
                            g: Operand { ends: ge.iter().map(|&e| B(e)).collect(), nums: vec![] },
                            sub,
                            extra: vec![B(0.5)],
                        },
                        "small-scope-pairs",
                    );
                }
            }
        }
    }
    fn exhaustive_scopes(&self, tier: Tier) -> Vec<String> {
        vec![format!("all ordered pairs of sorted multisets of 1..={} ends over {} x {{+,-}}, each judged at its whole union alphabet", tier.pick(3, 4), tier.pick("{-0.0, 0.0, 1, nextup(1)}", "{-1, -0.0, 0.0, 1, nextup(1)}"))]
    }
    fn from_bytes(&self, u: &mut Unstructured) -> Option<Case> {
        let kind: u8 = u.arbitrary().ok()?;
        let mut custom = Vec::new();
        if kind % 10 == 9 {
            for _ in 0..(1 + u.arbitrary::<u8>().ok()? % 6) {
                let f = fuzz_f64(u)?;
                custom.push(f);
            }
        } else {
            custom.push(1.0);
        }
        let lat = gen::ends_lattice(kind, &custom, false);
        let mk = |u: &mut Unstructured| -> Option<Vec<f64>> {
            let n = 1 + (u.arbitrary::<u8>().ok()? as usize) % 10;
            let mut e = Vec::with_capacity(n);
            for _ in 0..n {
                let p: u8 = u.arbitrary().ok()?;
                e.push(lat[(p as usize * lat.len()) >> 8]);
            }
            e.sort_by(|a, b| a.partial_cmp(b).unwrap());
            Some(e)
        };
        let fe = mk(u)?;
        let ge = mk(u)?;
        let sub: bool = u.arbitrary().ok()?;
        Some(Case {
            f: Operand { ends: fe.into_iter().map(B).collect(), nums: vec![] },
            g: Operand { ends: ge.into_iter().map(B).collect(), nums: vec![] },
            sub,
            extra: vec![],
        })
    }
    fn size(&self, c: &Case) -> usize {
        c.f.ends.len() + c.g.ends.len()
    }
}
