//! C03 — the stateful evaluator agrees with direct evaluation on every query
//! history. (The history engine is shared with C16, which adds NaN queries.)

use super::c02::{fuzz_f64, pw_from_bytes};
use super::common::*;
use crate::fl::{hex, same_bits, B};
use crate::gen;
use crate::model::select;
use crate::runner::{Ctx, Outcome, Prop, Tier};
use crate::{fail, lib};
use arbitrary::Unstructured;
use piecewise_polynomial::*;
use proptest::collection::vec;
use proptest::prelude::*;
use proptest::strategy::ValueTree;
use proptest::test_runner::{Config, RngSeed, TestRunner};
use serde::{Deserialize, Serialize};
use std::collections::{BTreeMap, HashMap, VecDeque};
use std::sync::atomic::{AtomicU64, Ordering};

#[derive(Clone, Debug, Hash, Serialize, Deserialize)]
pub struct Case {
    pub pw: PwSpec,
    pub xs: Vec<B>,
}

struct HV<'a, 'b> {
    ends: &'a [f64],
    xs: &'a [f64],
    ctx: &'a mut Ctx<'b>,
}
impl<'a, 'b> PwVisitor for HV<'a, 'b> {
    type Out = Outcome;
    fn visit<T: Evaluate + Clone + std::fmt::Debug + 'static>(&mut self, pw: &Piecewise<T>, is_tag: bool) -> Outcome {
        // the oracle uses the ends of the function that was actually built (composed kinds)
        let built_ends: Vec<f64> = pw.segments.iter().map(|s| s.end).collect();
        let _ = self.ends;
        let ends_b: &[f64] = &built_ends;
        if ends_b.is_empty() || ends_b.iter().any(|e| e.is_nan()) || ends_b.windows(2).any(|w| !(w[0] <= w[1])) {
            fail!("a library constructor returned a piecewise function whose breakpoints are not well-formed: {:?}", ends_b);
        }
        let mut ev = lib!(PiecewiseEvaluator::new(&pw.segments));
        for (k, &x) in self.xs.iter().enumerate() {
            let got = lib!(ev.evaluate(x));
            if x.is_nan() {
                // C16: must not panic; the value for a NaN argument is not pinned
                let _ = lib!(pw.evaluate(x));
                continue;
            }
            let direct = lib!(pw.evaluate(x));
            let i = select(ends_b, x);
            let model = lib!(pw.segments[i].poly.evaluate(x));
            self.ctx.comparisons += 1;
            // the property relates the evaluator to DIRECT evaluation only; which segment direct evaluation picks is
            // C02's business (the model's answer is shown in the message for orientation)
            if !same_bits(got, direct) {
                let hist: Vec<String> = self.xs[..=k].iter().map(|v| format!("{v:e}")).collect();
                fail!(
                    "query #{k} x={}: PiecewiseEvaluator returned {}, direct Piecewise::evaluate {}, selection model (segment #{i}) {}{}\n  ends = {:?}\n  history so far = [{}]",
                    hex(x),
                    hex(got),
                    hex(direct),
                    hex(model),
                    if is_tag { " (tag pieces: value = index of the segment used)" } else { "" },
                    ends_b,
                    hist.join(", ")
                );
            }
        }
        // history independence, metamorphic form: the last non-NaN query on a fresh evaluator
        if let Some(&x) = self.xs.iter().rev().find(|x| !x.is_nan()) {
            let mut fresh = lib!(PiecewiseEvaluator::new(&pw.segments));
            let a = lib!(fresh.evaluate(x));
            let b = lib!(pw.evaluate(x));
            self.ctx.comparisons += 1;
            if !same_bits(a, b) {
                fail!("fresh evaluator at x={} returned {} but direct evaluation {} (ends {:?})", hex(x), hex(a), hex(b), ends_b);
            }
        }
        Outcome::Pass
    }
}

/// Shared history check. `allow_nan`: C16 mode.
pub fn check_history(c: &Case, ctx: &mut Ctx, allow_nan: bool) -> Outcome {
    let ends = c.pw.ends_f();
    let xs: Vec<f64> = c.xs.iter().map(|b| b.0).collect();
    if ends.is_empty() || ends.iter().any(|e| e.is_nan()) || ends.windows(2).any(|w| !(w[0] <= w[1])) {
        return Outcome::Skip("not well-formed");
    }
    if !allow_nan && xs.iter().any(|x| x.is_nan()) {
        return Outcome::Skip("NaN query (C16's business)");
    }
    // labels + non-triviality
    ctx.label(KIND_NAMES[(c.pw.kind % NKINDS) as usize]);
    if ends.len() == 1 {
        ctx.label("single-segment");
    }
    if has_duplicates(&ends) {
        ctx.label("duplicate-ends");
    }
    let mut back_cross = false;
    let mut back_on_end = false;
    let mut maxjump = 0usize;
    let mut nan_then_mid = false;
    let mut seen_nan = false;
    let mut prev: Option<f64> = None;
    for &x in &xs {
        if x.is_nan() {
            seen_nan = true;
            ctx.label("h:has-nan");
            if prev.map_or(false, |p: f64| p.is_nan()) {
                ctx.label("h:consecutive-nan");
            }
            prev = Some(x);
            continue;
        }
        if x.is_infinite() {
            ctx.label("h:inf-queried");
        }
        let i = select(&ends, x);
        if seen_nan && i != 0 && i != ends.len() - 1 {
            nan_then_mid = true;
        }
        if let Some(p) = prev {
            if !p.is_nan() {
                if x == p {
                    ctx.label("h:repeat");
                }
                if x < p {
                    let ip = select(&ends, p);
                    if ip > i {
                        back_cross = true;
                        maxjump = maxjump.max(ip - i);
                        if ip == ends.len() - 1 && i == 0 && ends.len() >= 3 {
                            ctx.label("h:last-to-first");
                        }
                    }
                    if ends.iter().any(|&e| e == x) {
                        back_on_end = true;
                    }
                }
            }
        }
        prev = Some(x);
    }
    if back_cross {
        ctx.label("h:backward-cross");
    }
    if maxjump >= 2 {
        ctx.label("h:backward-jump>=2");
    }
    if back_on_end {
        ctx.label("h:backward-onto-end");
    }
    if nan_then_mid {
        ctx.label("h:nan-then-middle-segment");
    }
    ctx.nontrivial = if allow_nan { ends.len() >= 3 && nan_then_mid } else { ends.len() >= 2 && (back_cross || back_on_end) };
    let mut v = HV { ends: &ends, xs: &xs, ctx };
    visit_pw(&c.pw, &mut v)
}

pub fn history_strategy(max_segs: usize, max_hist: usize, with_nan: bool) -> BoxedStrategy<Case> {
    (pw_spec(max_segs), vec(step(), 0..=max_hist), vec(gen::any_non_nan(), 3), any::<u8>())
        .prop_map(move |(pw, steps, extra, mode)| {
            let ends = pw.ends_f();
            let a = gen::alphabet(&ends, &extra, with_nan);
            let mut xs = resolve_steps(&a, &ends, &steps);
            match mode % 8 {
                0 => xs.sort_by(|a, b| a.total_cmp(b)),                    // monotone increasing run
                1 => xs.sort_by(|a, b| b.total_cmp(a)),                    // monotone decreasing run
                _ => {}
            }
            Case { pw, xs: xs.into_iter().map(B).collect() }
        })
        .boxed()
}

/// Breadth-first exploration of the evaluator's reachable hidden states (hook H1)
/// for one list of ends and one alphabet. For every reachable state and every
/// alphabet query, calls `on_transition(history incl. the query)`.
/// Returns (states, transitions).
pub fn bfs_states(ends: &[f64], alpha: &[f64], max_states: usize, on_transition: &mut dyn FnMut(&[f64])) -> (u64, u64) {
    let pw = Piecewise { segments: ends.iter().enumerate().map(|(i, &e)| Segment { end: e, poly: Poly0(i as f64) }).collect::<Vec<_>>() };
    let run = |hist: &[f64]| -> Option<(usize, usize, u64)> {
        crate::runner::lib(|| {
            let mut ev = PiecewiseEvaluator::new(&pw.segments);
            for &x in hist {
                ev.evaluate(x);
            }
            ev.verif_state()
        })
        .ok()
    };
    let mut seen: HashMap<(usize, usize, u64), ()> = HashMap::new();
    let mut queue: VecDeque<Vec<f64>> = VecDeque::new();
    let mut states = 0u64;
    let mut transitions = 0u64;
    if let Some(s0) = run(&[]) {
        seen.insert(s0, ());
        queue.push_back(Vec::new());
        states += 1;
    }
    while let Some(hist) = queue.pop_front() {
        for &a in alpha {
            let mut h = hist.clone();
            h.push(a);
            transitions += 1;
            on_transition(&h);
            if let Some(s) = run(&h) {
                if !seen.contains_key(&s) && seen.len() < max_states {
                    seen.insert(s, ());
                    states += 1;
                    queue.push_back(h);
                }
            }
        }
    }
    (states, transitions)
}

pub fn sample_ends(seed: u64, salt: u64, count: usize, max_len: usize) -> Vec<Vec<f64>> {
    let cfg = Config { rng_seed: RngSeed::Fixed(seed ^ salt.wrapping_mul(0x9E37_79B9_7F4A_7C15)), failure_persistence: None, ..Config::default() };
    let mut runner = TestRunner::new(cfg);
    let strat = gen::ends(max_len, false);
    (0..count).filter_map(|_| strat.new_tree(&mut runner).ok().map(|t| t.current())).collect()
}

#[derive(Default)]
pub struct C03 {
    pub states: AtomicU64,
    pub transitions: AtomicU64,
}

impl Prop for C03 {
    type Case = Case;
    fn id(&self) -> &'static str {
        "C03"
    }
    fn rule(&self) -> String {
        "case = (segment list as in C02 (tag / value pieces / functions composed from linear, constrained_spline, integral, &f+&g; 1 in 10 long), history of 0..=H non-NaN queries built from steps over the list's sorted alphabet: absolute jumps, relative moves of -6..6 alphabet positions, repeats, first/last, jumps exactly onto an end; 1/8 sorted ascending, 1/8 descending). One PiecewiseEvaluator per case; after every query its result bits are compared with Piecewise::evaluate and with the linear-scan selection model; the last query is repeated on a fresh evaluator. Non-trivial: >= 2 segments and the history contains a backward move that crosses >= 1 breakpoint or lands exactly on an end. Extras: (a) every history of length <= 3 over the full alphabet for every sorted multiset of <= 3 ends over the 5-point lattice; (b) breadth-first exploration of the evaluator's reachable hidden states (hook verif_state) to a fixpoint for generated lists: every (reachable state, alphabet query) pair is executed and judged.".into()
    }
    fn assumptions(&self) -> Vec<String> {
        vec!["state exploration trusts the hook PiecewiseEvaluator::verif_state (feature verif-hooks) to expose the complete hidden state (cursor offset, tail length, last argument bits)".into()]
    }
    fn cases(&self, tier: Tier) -> u64 {
        tier.pick(400_000, 6_000_000)
    }
    fn strategy(&self, tier: Tier) -> BoxedStrategy<Case> {
        history_strategy(tier.pick(8, 24), tier.pick(40, 200), false)
    }
    fn check(&self, c: &Case, ctx: &mut Ctx) -> Outcome {
        check_history(c, ctx, false)
    }
    fn extras(&self, tier: Tier, seed: u64, shard: u32, nshards: u32, sink: &mut dyn FnMut(Case, &'static str)) {
        extras_impl(tier, seed, shard, nshards, sink, false, &self.states, &self.transitions)
    }
    fn extra_counters(&self) -> BTreeMap<String, u64> {
        let mut m = BTreeMap::new();
        m.insert("bfs_states".into(), self.states.load(Ordering::Relaxed));
        m.insert("bfs_transitions".into(), self.transitions.load(Ordering::Relaxed));
        m
    }
    fn exhaustive_scopes(&self, _tier: Tier) -> Vec<String> {
        vec![
            "all histories of length <= 3 (thorough tier: <= 4) over the full alphabet, for all sorted multisets of 1..=3 ends over {-1,-0.0,0.0,1,nextup(1)}".into(),
            "reachable-state fixpoint (all (state, query) pairs) per generated list and its alphabet".into(),
        ]
    }
    fn from_bytes(&self, u: &mut Unstructured) -> Option<Case> {
        history_from_bytes(u, false)
    }
    fn size(&self, c: &Case) -> usize {
        c.xs.len() * 100 + c.pw.ends.len()
    }
}

pub fn extras_impl(
    tier: Tier,
    seed: u64,
    shard: u32,
    nshards: u32,
    sink: &mut dyn FnMut(Case, &'static str),
    with_nan: bool,
    states: &AtomicU64,
    transitions: &AtomicU64,
) {
    // (a) exhaustive short histories on the small scope
    let lists = enumerate_multisets(&small_lattice(), 3);
    let mut n = 0u32;
    for ends in &lists {
        n += 1;
        if n % nshards != shard {
            continue;
        }
        let extra: &[f64] = &[0.5];
        let alpha = gen::alphabet(ends, extra, with_nan);
        let spec = PwSpec { kind: 0, ends: ends.iter().map(|&e| B(e)).collect(), pool: vec![] };
        let m = alpha.len();
        // all histories of length exactly 3 (their prefixes cover lengths 1, 2); thorough: length 4
        let deep = tier == Tier::Thorough;
        for i in 0..m {
            for j in 0..m {
                for k in 0..m {
                    if deep {
                        for l in 0..m {
                            let xs = vec![B(alpha[i]), B(alpha[j]), B(alpha[k]), B(alpha[l])];
                            sink(Case { pw: spec.clone(), xs }, "short-histories");
                        }
                    } else {
                        let xs = vec![B(alpha[i]), B(alpha[j]), B(alpha[k])];
                        sink(Case { pw: spec.clone(), xs }, "short-histories");
                    }
                }
            }
        }
    }
    // (b) reachable-state exploration
    let (count, max_len) = tier.pick((208usize, 6usize), (3200usize, 12usize));
    let per = count / nshards as usize;
    let lists = sample_ends(seed, 0xB0F5 + shard as u64, per, max_len);
    for ends in lists {
        let alpha = gen::alphabet(&ends, &[], with_nan);
        let spec = PwSpec { kind: 0, ends: ends.iter().map(|&e| B(e)).collect(), pool: vec![] };
        let mut cb = |h: &[f64]| {
            sink(Case { pw: spec.clone(), xs: h.iter().map(|&x| B(x)).collect() }, "state-bfs-transition");
        };
        let (s, t) = bfs_states(&ends, &alpha, 100_000, &mut cb);
        states.fetch_add(s, Ordering::Relaxed);
        transitions.fetch_add(t, Ordering::Relaxed);
    }
}

pub fn history_from_bytes(u: &mut Unstructured, with_nan: bool) -> Option<Case> {
    let pw = pw_from_bytes(u, 10)?;
    let ends = pw.ends_f();
    let extra = [fuzz_f64(u)?];
    let a = gen::alphabet(&ends, &extra, with_nan);
    let n = (u.arbitrary::<u8>().ok()? as usize) % 48;
    let mut steps = Vec::with_capacity(n);
    for _ in 0..n {
        let op: u8 = u.arbitrary().ok()?;
        steps.push(match op % 8 {
            0 | 1 => Step::Abs(u.arbitrary().ok()?),
            2 | 3 => Step::Rel((u.arbitrary::<i8>().ok()?) / 16),
            4 => Step::Repeat,
            5 => Step::First,
            6 => Step::Last,
            _ => Step::OnEnd(u.arbitrary().ok()?),
        });
    }
    let xs = resolve_steps(&a, &ends, &steps);
    Some(Case { pw, xs: xs.into_iter().map(B).collect() })
}
