//! Property-based testing / fuzzing harness for `piecewise_polynomial`
//! (see /verif/DESIGN.md).

pub mod bench_data;
pub mod findings;
pub mod fl;
pub mod gen;
pub mod logint;
pub mod model;
pub mod num;
pub mod oracle_cli;
pub mod props;
pub mod runner;

pub use runner::{DynProp, Tier};

/// Self-tests of the oracle machinery (exit 2, never a violation, when they fail).
pub fn self_test() -> Vec<String> {
    let mut e = ppv_exact::self_test();
    e.extend(model::model_self_test());
    e.extend(logint::self_test());
    e
}

/// Entry point of the libFuzzer targets (fuzz/fuzz_targets/*.rs).
pub fn fuzz_entry(id: &str, data: &[u8]) {
    use std::sync::OnceLock;
    static REG: OnceLock<(Vec<Box<dyn DynProp>>, findings::Findings)> = OnceLock::new();
    let (props, f) = REG.get_or_init(|| {
        // libfuzzer-sys installs an aborting panic hook; replace it so that library
        // panics can be caught and reported as violations with a message.
        runner::install_quiet_panic_hook();
        (props::all(), findings::Findings::load(&runner::verif_root().join("known_findings.txt")))
    });
    if let Some(p) = props.iter().find(|p| p.id() == id) {
        p.fuzz(data, f);
    }
}
