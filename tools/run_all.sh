#!/usr/bin/env bash
# run every check of MANIFEST.json in the given tier; print one line per property
TIER="${1:-quick}"
cd "$(dirname "$0")/.."
rc=0
for id in $(python3 -c "import json;print(' '.join(c['property_id'] for c in json.load(open('MANIFEST.json'))['checks']))"); do
  start=$(date +%s.%N)
  out=$(./check "$id" "$TIER" 2>&1); code=$?
  end=$(date +%s.%N)
  printf "%s exit=%d %.1fs  %s\n" "$id" "$code" "$(echo "$end - $start" | bc)" "$(echo "$out" | grep -E "^$id " | tail -1 | cut -c1-160)"
  echo "$out" | grep -E "^VIOLATION|^HARNESS|^ERROR" | head -3
  [ $code -ne 0 ] && rc=1
done
exit $rc
