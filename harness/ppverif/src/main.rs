use ppverif::runner::{install_quiet_panic_hook, Tier};
use std::process::exit;

fn usage() -> ! {
    eprintln!(
        "usage: ppcheck run <Cxx> <quick|thorough> [--fuzz-stats <file>]\n       ppcheck replay <Cxx> <file.json>\n       ppcheck replay-bytes <Cxx> <file>\n       ppcheck dump <Cxx> <quick|thorough> <n>\n       ppcheck selftest | list"
    );
    exit(2)
}

fn tier_of(s: &str) -> Tier {
    match s {
        "quick" => Tier::Quick,
        "thorough" => Tier::Thorough,
        _ => usage(),
    }
}

fn main() {
    let args: Vec<String> = std::env::args().collect();
    if args.len() < 2 {
        usage();
    }
    let seed: u64 = std::env::var("VERIF_SEED").ok().and_then(|s| s.trim().parse::<i64>().ok()).map(|v| v as u64).unwrap_or(1);
    match args[1].as_str() {
        "list" => {
            for p in ppverif::props::all() {
                println!("{}", p.id());
            }
        }
        "selftest" => {
            let e = ppverif::self_test();
            if e.is_empty() {
                println!("self-test ok");
            } else {
                for m in e.iter().take(20) {
                    eprintln!("SELF-TEST FAILURE: {m}");
                }
                exit(2);
            }
        }
        "run" => {
            if args.len() < 4 {
                usage();
            }
            let Some(p) = ppverif::props::by_id(&args[2]) else {
                eprintln!("unknown property {}", args[2]);
                exit(2)
            };
            let tier = tier_of(&args[3]);
            let mut fuzz_stats = None;
            if args.len() >= 6 && args[4] == "--fuzz-stats" {
                fuzz_stats = std::fs::read_to_string(&args[5]).ok().and_then(|s| serde_json::from_str(&s).ok());
            }
            let e = ppverif::self_test();
            if !e.is_empty() {
                for m in e.iter().take(20) {
                    eprintln!("SELF-TEST FAILURE (oracle machinery, not a property violation): {m}");
                }
                exit(2);
            }
            install_quiet_panic_hook();
            exit(p.run(tier, seed, fuzz_stats));
        }
        "replay" | "replay-bytes" => {
            if args.len() < 4 {
                usage();
            }
            let Some(p) = ppverif::props::by_id(&args[2]) else {
                eprintln!("unknown property {}", args[2]);
                exit(2)
            };
            install_quiet_panic_hook();
            let code = if args[1] == "replay" { p.replay(&args[3]) } else { p.replay_bytes(&args[3]) };
            exit(code);
        }
        "oracle" => {
            exit(ppverif::oracle_cli::run());
        }
        "dump" => {
            if args.len() < 5 {
                usage();
            }
            let Some(p) = ppverif::props::by_id(&args[2]) else { exit(2) };
            let n: u32 = args[4].parse().unwrap_or(10);
            for v in p.dump(tier_of(&args[3]), seed, n) {
                println!("{}", v);
            }
        }
        _ => usage(),
    }
}
