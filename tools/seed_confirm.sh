#!/usr/bin/env bash
# tools/seed_confirm.sh <Cxx> <k> : independently confirm a sub-agent's seeded change in its scratch
# worktree /tmp/seed/<Cxx> (never in /repo): (a) applies cleanly and the 94 existing tests pass with it,
# (b) its demonstration fails with it, (c) the demonstration passes without it. On success the change is
# stored as /verif/seeded/<Cxx>-<k>/ (patch.diff, demo.rs, note.md, meta.json).
set -u
ID="$1"; K="$2"; BASE="${3:-/tmp/seed}"; TAG="${4:-}"; W="$BASE/$ID"; O="$W/_out"
export CARGO_TARGET_DIR="$W/target" CARGO_NET_OFFLINE=true
cd "$W" || exit 2
git checkout -q -- . ; rm -rf tests
[ -s "$O/change$K.diff" ] && [ -s "$O/demo$K.rs" ] || { echo "$ID-$K: missing files"; exit 1; }
# only src/ may be touched
if git apply --numstat "$O/change$K.diff" | awk '{print $3}' | grep -qv '^src/'; then echo "$ID-$K: patch touches files outside src/"; exit 1; fi
git apply "$O/change$K.diff" || { echo "$ID-$K: patch does not apply"; exit 1; }
T=$(cargo test --offline 2>&1 | grep -E "^test result" | head -1)
echo "$T" | grep -q "94 passed; 0 failed" || { echo "$ID-$K: existing tests do not pass with the change: $T"; git checkout -q -- .; exit 1; }
mkdir -p tests; cp "$O/demo$K.rs" tests/seed_demo.rs
FEAT=""; grep -q "borsh" "$O/demo$K.rs" && FEAT="--features borsh"
D1=$(cargo test --offline $FEAT --test seed_demo 2>&1 | grep -E "^test result|error(\[|:)" | head -2 | tr '\n' ' ')
echo "$D1" | grep -q "FAILED" || { echo "$ID-$K: demo does not fail with the change: $D1"; git checkout -q -- .; rm -rf tests; exit 1; }
git checkout -q -- .
D0=$(cargo test --offline $FEAT --test seed_demo 2>&1 | grep -E "^test result|error(\[|:)" | head -2 | tr '\n' ' ')
rm -rf tests
echo "$D0" | grep -q "test result: ok" || { echo "$ID-$K: demo does not pass on the clean tree: $D0"; exit 1; }
DST="/verif/seeded/$ID-$TAG$K"; mkdir -p "$DST"
cp "$O/change$K.diff" "$DST/patch.diff"; cp "$O/demo$K.rs" "$DST/demo.rs"; cp "$O/note$K.md" "$DST/note.md" 2>/dev/null
python3 - "$ID" "$K" "$DST" "$T" "$D1" "$D0" <<'PY'
import json,sys
ID,K,DST,T,D1,D0=sys.argv[1:7]
note=open(DST+'/note.md').read() if __import__('os').path.exists(DST+'/note.md') else ''
json.dump({"breaks_property": ID, "origin": "independent sub-agent given only the property text and a scratch worktree",
  "needs_to_manifest": note.strip().split('\n\n')[0][:1500],
  "confirmed": {"where": "scratch worktree of /repo under /tmp (removed afterwards)",
     "existing_tests_with_change": T, "demo_with_change": D1.strip(), "demo_without_change": D0.strip()},
  "checks_run": {}}, open(DST+'/meta.json','w'), indent=1)
PY
echo "$ID-$TAG$K: confirmed -> $DST"
