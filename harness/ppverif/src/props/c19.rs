//! C19 — Arbitrary-generated piecewise functions are always well-formed.

use crate::fl::{hex, same_bits};
use crate::gen;
use crate::model::select;
use crate::runner::{Ctx, Outcome, Prop, Tier};
use crate::{fail, lib};
use arbitrary::{Arbitrary, Unstructured};
use piecewise_polynomial::*;
use proptest::collection::vec;
use proptest::prelude::*;
use serde::{Deserialize, Serialize};

#[derive(Clone, Debug, Hash, Serialize, Deserialize)]
pub struct Case {
    /// 0: Piecewise<Poly0>, 1: Piecewise<Poly3>, 2: Piecewise<Poly8>, 3: Piecewise<PolyN>, 4: Piecewise<Piecewise<Poly1>>
    pub ty: u8,
    pub bytes: Vec<u8>,
}

pub struct C19;

pub const TY_NAMES: [&str; 5] = ["Piecewise<Poly0>", "Piecewise<Poly3>", "Piecewise<Poly8>", "Piecewise<PolyN>", "Piecewise<Piecewise<Poly1>>"];

/// encode a list of ends the way `Vec<f64>::arbitrary` reads it: a continuation
/// byte (odd = one more element) then 8 little-endian bytes, closed by an even byte
pub fn encode_ends(ends: &[f64], cont: u8, stop: u8) -> Vec<u8> {
    let mut b = Vec::with_capacity(ends.len() * 9 + 1);
    for e in ends {
        b.push(cont | 1);
        b.extend_from_slice(&e.to_bits().to_le_bytes());
    }
    b.push(stop & !1);
    b
}

fn check_ty<T>(bytes: &[u8], ctx: &mut Ctx, tyname: &str) -> Outcome
where
    T: for<'a> Arbitrary<'a> + Evaluate + Clone + std::fmt::Debug,
{
    let r = lib!(Piecewise::<T>::arbitrary(&mut Unstructured::new(bytes)));
    let pw = match r {
        Err(_) => {
            ctx.label("Err");
            return Outcome::Pass;
        }
        Ok(pw) => pw,
    };
    ctx.label("Ok");
    let ends: Vec<f64> = pw.segments.iter().map(|s| s.end).collect();
    ctx.comparisons += 1;
    if ends.is_empty() {
        fail!("{tyname}::arbitrary returned Ok with no segments (bytes {:?})", bytes);
    }
    if let Some(e) = ends.iter().find(|e| !e.is_normal()) {
        fail!("{tyname}::arbitrary returned a breakpoint that is not a normal float: {} (ends {:?})", hex(*e), ends);
    }
    if ends.windows(2).any(|w| !(w[0] <= w[1])) {
        fail!("{tyname}::arbitrary returned breakpoints that are not non-decreasing: {:?}", ends);
    }
    ctx.label(match ends.len() {
        1 => "Ok:1 segment",
        2..=4 => "Ok:2-4 segments",
        _ => "Ok:>=5 segments",
    });
    if ends.windows(2).any(|w| w[0] == w[1]) {
        ctx.label("Ok:duplicate ends");
    }
    ctx.nontrivial = ends.len() >= 2;
    // three-way evaluation of a tag copy (same ends, Poly0(i)) over its whole alphabet incl. NaN
    let tag = Piecewise { segments: ends.iter().enumerate().map(|(i, &e)| Segment { end: e, poly: Poly0(i as f64) }).collect::<Vec<_>>() };
    let alpha = gen::alphabet(&ends, &[], true);
    let mut shuffled: Vec<f64> = alpha.iter().rev().cloned().collect();
    // deterministic interleave: last, first, second-last, second, ...
    {
        let mut inter = Vec::with_capacity(alpha.len());
        let (mut lo, mut hi) = (0usize, alpha.len());
        while lo < hi {
            hi -= 1;
            inter.push(alpha[hi]);
            if lo < hi {
                inter.push(alpha[lo]);
                lo += 1;
            }
        }
        shuffled.extend(inter);
    }
    let mut ev = lib!(PiecewiseEvaluator::new(&tag.segments));
    // NaN arguments go to an evaluator of their own: whether a NaN query influences later answers is C16's
    // business, not C19's
    let mut ev_nan = lib!(PiecewiseEvaluator::new(&tag.segments));
    for (phase, seq) in [&alpha, &shuffled].iter().enumerate() {
        for &x in seq.iter() {
            let direct = lib!(tag.evaluate(x));
            let stateful = if x.is_nan() { lib!(ev_nan.evaluate(x)) } else { lib!(ev.evaluate(x)) };
            if x.is_nan() {
                // NaN: panic-freedom only. Which segment answers a NaN argument is not pinned by any listed
                // property (C02 and C03 exclude NaN, C16 asks for no panic and for harmlessness), so the routes
                // are not required to agree on it (a bisecting `evaluate` may legitimately pick another segment).
                let _ = phase;
                continue;
            }
            let m = lib!(tag.segments[select(&ends, x)].poly.evaluate(x)); // = the tag, by the piece's own evaluation
            self::cmp3(ctx);
            if !same_bits(direct, m) || !same_bits(stateful, m) {
                fail!(
                    "{tyname}::arbitrary value with ends {:?}: at x={} direct evaluation uses segment {}, the stateful evaluator {} (phase {phase}), the selection model {}",
                    ends, hex(x), direct, stateful, m
                );
            }
        }
    }
    // a FRESH evaluator for each breakpoint (the very first query of an evaluator is special: its remembered
    // argument is initialised from the first breakpoint)
    for &x in ends.iter().take(8) {
        let mut fresh = lib!(PiecewiseEvaluator::new(&tag.segments));
        let got = lib!(fresh.evaluate(x));
        let m = lib!(tag.segments[select(&ends, x)].poly.evaluate(x)); // = the tag, by the piece's own evaluation
        ctx.comparisons += 1;
        if !same_bits(got, m) {
            fail!("{tyname}::arbitrary value with ends {:?}: a fresh stateful evaluator queried at x={} uses segment {} but direct evaluation / the selection model segment {}", ends, hex(x), got, m);
        }
    }
    let sorted: Vec<f64> = alpha.iter().cloned().filter(|x| !x.is_nan()).collect(); // alphabet is sorted by total order
    let batch: Vec<f64> = lib!(tag.evaluate_v(sorted.clone()).collect());
    if batch.len() != sorted.len() {
        fail!("evaluate_v yielded {} values for {} arguments", batch.len(), sorted.len());
    }
    for (i, &x) in sorted.iter().enumerate() {
        let m = lib!(tag.segments[select(&ends, x)].poly.evaluate(x)); // = the tag, by the piece's own evaluation
        ctx.comparisons += 1;
        if !same_bits(batch[i], m) {
            fail!("{tyname}::arbitrary value with ends {:?}: evaluate_v at x={} uses segment {} but the selection model says {}", ends, hex(x), batch[i], m);
        }
    }
    // NaN through evaluate_v and the original (arbitrary, possibly NaN-coefficient) function: panic-freedom only
    lib!({
        let _ = tag.evaluate_v(alpha.clone()).count();
        for &x in &alpha {
            let _ = pw.evaluate(x);
        }
        let mut e2 = PiecewiseEvaluator::new(&pw.segments);
        for &x in &shuffled {
            let _ = e2.evaluate(x);
        }
        let _ = pw.evaluate_v(alpha.clone()).count();
    });
    Outcome::Pass
}
fn cmp3(ctx: &mut Ctx) {
    ctx.comparisons += 2;
}

static END_SPECIALS: &[f64] = &[f64::NAN, f64::INFINITY, f64::NEG_INFINITY, 0.0, -0.0, 5e-324, -5e-324, 2.225073858507201e-308];

impl Prop for C19 {
    type Case = Case;
    fn id(&self) -> &'static str {
        "C19"
    }
    fn rule(&self) -> String {
        "case = (T in {Poly0, Poly3, Poly8, PolyN, Piecewise<Poly1> (a piece type whose own Arbitrary can fail)}; byte string). Byte strings are (a) CONSTRUCTED with the wire layout Vec<f64>::arbitrary reads (continuation byte, 8 little-endian bytes per element) so that they decode to chosen end lists — normal random ends in any order incl. descending, many duplicates, empty list, lists containing NaN / ±inf / subnormal / ±0 ends — followed by random piece bytes, and truncated at a random position (so the input runs out while ends or pieces are read), or (b) uniformly random bytes of length 0..200. Oracle: the call never panics; Err is always acceptable; Ok(pw) must have >=1 segment, every end is_normal(), ends non-decreasing; then a tag copy (same ends, Poly0(i)) is evaluated over its whole alphabet incl. 5 NaN payloads directly, through one PiecewiseEvaluator (alphabet ascending, then descending, then interleaved extremes) and through evaluate_v (ascending): no panic, and for non-NaN arguments the same segment index from all three and from the selection model (for NaN arguments only panic-freedom: which segment answers NaN is not pinned by any listed property); the original value is evaluated the same three ways for panic-freedom. Non-trivial: Ok with >=2 segments.".into()
    }
    fn cases(&self, tier: Tier) -> u64 {
        tier.pick(1_000_000, 10_000_000)
    }
    fn strategy(&self, _tier: Tier) -> BoxedStrategy<Case> {
        let normal = prop_oneof![3 => gen::scaled(-8, 8), 1 => gen::scaled(-1022, 1023), 1 => gen::from_table(&[1.0, -1.0, 2.0, f64::MAX, -f64::MAX, f64::MIN_POSITIVE, -f64::MIN_POSITIVE, 1.0000000000000002])];
        let structured = (
            0u8..6,
            prop_oneof![9 => vec(normal.clone(), 0..10), 1 => vec(normal, 10..48)],
            vec((0..END_SPECIALS.len(), any::<u16>()), 0..3),
            vec(any::<u8>(), 0..120),
            any::<u8>(),
            any::<u8>(),
            prop_oneof![2 => Just(u16::MAX), 1 => any::<u16>()],
        )
            .prop_map(|(mode, mut ends, specials, tail, cont, stop, cut)| {
                match mode {
                    0 => ends.sort_by(|a, b| b.partial_cmp(a).unwrap()), // descending
                    1 => {
                        // many duplicates
                        if let Some(&f) = ends.first() {
                            for (i, e) in ends.iter_mut().enumerate() {
                                if i % 2 == 1 {
                                    *e = f;
                                }
                            }
                        }
                    }
                    2 => ends.clear(), // empty list
                    3 => {
                        // inject non-normal ends
                        for (si, pos) in &specials {
                            let p = crate::runner::idx(*pos, ends.len() + 1);
                            ends.insert(p, END_SPECIALS[*si]);
                        }
                    }
                    _ => {}
                }
                let mut b = encode_ends(&ends, cont, stop);
                b.extend_from_slice(&tail);
                if cut != u16::MAX {
                    let n = crate::runner::idx(cut, b.len() + 1);
                    b.truncate(n);
                }
                b
            });
        let bytes = prop_oneof![4 => structured, 1 => vec(any::<u8>(), 0..200)];
        (0u8..5, bytes).prop_map(|(ty, bytes)| Case { ty, bytes }).boxed()
    }
    fn check(&self, c: &Case, ctx: &mut Ctx) -> Outcome {
        let ty = c.ty % 5;
        ctx.label(TY_NAMES[ty as usize]);
        if c.bytes.is_empty() {
            ctx.label("empty input");
        }
        match ty {
            0 => check_ty::<Poly0>(&c.bytes, ctx, TY_NAMES[0]),
            1 => check_ty::<Poly3>(&c.bytes, ctx, TY_NAMES[1]),
            2 => check_ty::<Poly8>(&c.bytes, ctx, TY_NAMES[2]),
            3 => check_ty::<PolyN>(&c.bytes, ctx, TY_NAMES[3]),
            // a fallible piece type: the pieces are themselves Arbitrary piecewise functions
            _ => check_ty::<Piecewise<Poly1>>(&c.bytes, ctx, TY_NAMES[4]),
        }
    }
    fn from_bytes(&self, u: &mut Unstructured) -> Option<Case> {
        // raw bytes go straight to the library's Arbitrary impl; first byte selects T
        let ty: u8 = u.arbitrary().ok()?;
        let n = u.len();
        let rest = u.bytes(n).ok()?.to_vec();
        Some(Case { ty: ty % 5, bytes: rest })
    }
    fn size(&self, c: &Case) -> usize {
        c.bytes.len()
    }
}
