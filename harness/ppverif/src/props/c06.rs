//! C06 — linear() interpolates the knots and forces breakpoints to be non-decreasing.

use crate::fl::{hex, B};
use crate::gen;
use crate::model::select;
use crate::num::*;
use crate::runner::{idx, Ctx, Outcome, Prop, Tier};
use crate::{fail, lib};
use piecewise_polynomial::*;
use ppv_exact::{d, Bf, Dy};
use proptest::collection::vec;
use proptest::prelude::*;
use serde::{Deserialize, Serialize};

#[derive(Clone, Debug, Hash, Serialize, Deserialize)]
pub struct Case {
    pub xs: Vec<B>,
    pub ys: Vec<B>,
    /// evaluation points (used when the abscissae are strictly increasing with gaps >= eps)
    pub ts: Vec<B>,
}

pub struct C06;

const EPS: f64 = f64::EPSILON;

static GAPS: &[f64] = &[0.0, EPS / 2.0, EPS * (1.0 - 1.1102230246251565e-16), EPS, EPS * (1.0 + 2.0 * 1.1102230246251565e-16), 2.0 * EPS, 10.0 * EPS, 1.0, 0.5, 3.0];

fn xs_strategy() -> BoxedStrategy<Vec<f64>> {
    let n = prop_oneof![9 => 2usize..=12, 1 => 13usize..=40];
    prop_oneof![
        // strictly increasing moderate
        3 => (gen::moderate(8), vec(gen::scaled_pos(-6, 4), 40), n.clone()).prop_map(|(x0, st, n)| {
            let mut v = vec![x0];
            for i in 0..n - 1 { let p = v[i]; let nx = p + st[i]; v.push(if nx > p { nx } else { ppv_exact::next_up(p) }); }
            v
        }),
        // gaps around machine epsilon, starting at 0 / a small power of two / 1
        3 => (gen::from_table(&[0.0, -0.0, 1.0, 0.5, 7.450580596923828e-9, -1.0, 1e18, -1e18]), vec(0..GAPS.len(), 40), n.clone()).prop_map(|(x0, gi, n)| {
            let mut v = vec![x0];
            for i in 0..n - 1 { let p = v[i]; v.push(p + GAPS[gi[i]]); }
            v
        }),
        // arbitrary order (several out-of-order knots in a row, repeats)
        3 => (vec(gen::moderate(8), 40), n.clone()).prop_map(|(v, n)| v[..n].to_vec()),
        // few distinct values, many repeats
        1 => (vec((0usize..4).prop_map(|i| [0.0, 1.0, 1.0000000000000002, 2.0][i]), 40), n.clone()).prop_map(|(v, n)| v[..n].to_vec()),
        // any finite (structural clauses only)
        1 => (vec(gen::any_finite(), 40), n).prop_map(|(v, n)| v[..n].to_vec()),
    ]
    .boxed()
}

impl Prop for C06 {
    type Case = Case;
    fn id(&self) -> &'static str {
        "C06"
    }
    fn rule(&self) -> String {
        "case = (2..=12 finite knots (1 in 10: up to 40); abscissa patterns: strictly increasing, steps from the gap table {0, eps/2, eps(1-2^-53), eps, eps(1+2^-52), 2eps, 10eps, 0.5, 1, 3} starting at 0/-0/2^-27/0.5/±1/±1e18, arbitrary order (several out-of-order knots in a row), few distinct values with repeats, any finite; ordinates moderate, any finite, or from three values (verbatim-identical consecutive knots); evaluation points from the knots' alphabet). Oracle: X = running maximum of the abscissae (model); (1) n-1 segments, end_i == X_(i+1) (bits; a signed-zero tie may resolve either way); (2) with the EXACT width w = X_(i+1)-X_i: w < eps(1-2^-53) => the piece is the constant y_i (c1 == 0, c0 == y_i); w >= eps => the returned line, evaluated exactly, passes through (X_i,y_i) within 8u(|y_i|+|c1 X_i|) and through (X_(i+1),y_(i+1)) within 8u(|y_i|+|y_(i+1)|+|c1|(|X_i|+|X_(i+1)|)); in the sliver between either behaviour is accepted; (3) strictly increasing abscissae with gaps >= eps: Piecewise::evaluate at every knot, between knots and outside agrees with the exact straight line through the proper knot pair within the same magnitudes plus the Poly1 evaluation bound. (3') for EVERY input: evaluate(t) at the forced abscissae, ±0 and the generated points equals the line (or narrow-segment constant) of the segment the selection model picks on the returned ends. Value clauses only when all non-zero |x|,|y| lie in [2^-200, 2^200]. Non-trivial: >=3 knots and (an out-of-order or repeated abscissa, or a gap within [eps/2, 2eps], or an evaluation exactly at an interior knot).".into()
    }
    fn cases(&self, tier: Tier) -> u64 {
        tier.pick(400_000, 6_000_000)
    }
    fn strategy(&self, _tier: Tier) -> BoxedStrategy<Case> {
        // ordinates: independent, or from a handful of values (so that verbatim-identical consecutive knots occur)
        let ys = prop_oneof![4 => vec(gen::moderate(20), 40), 1 => vec(gen::any_finite(), 40), 2 => vec((0usize..3).prop_map(|i| [1.0, -2.0, 0.5][i]), 40), 1 => vec((0usize..6).prop_map(|i| [1e308, -1e308, f64::MAX, -f64::MAX, 1.5e308, -1.25e308][i]), 40)];
        (xs_strategy(), ys, vec(any::<u16>(), 6), vec(gen::moderate(8), 2), gen::common_scale(150))
            .prop_map(|(xs, ys, qs, extra, sc)| {
                let n = xs.len();
                let ys: Vec<f64> = ys.into_iter().map(|v| if (v * sc).is_finite() { v * sc } else { v }).collect();
                let a = gen::alphabet(&xs, &extra, false);
                let fin: Vec<f64> = a.into_iter().filter(|t| t.is_finite() && t.abs() < 1e30).collect();
                let ts: Vec<f64> = if fin.is_empty() { vec![0.0] } else { qs.iter().map(|&q| fin[idx(q, fin.len())]).collect() };
                Case { xs: xs.into_iter().map(B).collect(), ys: ys[..n].iter().map(|&v| B(v)).collect(), ts: ts.into_iter().map(B).collect() }
            })
            .boxed()
    }
    fn check(&self, case: &Case, ctx: &mut Ctx) -> Outcome {
        let xs: Vec<f64> = case.xs.iter().map(|b| b.0).collect();
        let ys: Vec<f64> = case.ys.iter().map(|b| b.0).collect();
        let ts: Vec<f64> = case.ts.iter().map(|b| b.0).collect();
        let n = xs.len();
        if n < 2 || ys.len() != n || xs.iter().chain(ys.iter()).any(|v| !v.is_finite()) {
            return Outcome::Skip("precondition: >= 2 finite knots");
        }
        let knots: Vec<Knot> = xs.iter().zip(&ys).map(|(&x, &y)| Knot::new(x, y)).collect();
        let pw = lib!(linear(&knots));
        // model: running maximum
        let mut xm = Vec::with_capacity(n);
        let mut m = xs[0];
        xm.push(m);
        for &x in &xs[1..] {
            if x > m {
                m = x;
            }
            xm.push(m);
        }
        let describe = || format!("knots x={xs:?} y={ys:?}");
        // (1) structure
        ctx.comparisons += 1;
        if pw.segments.len() != n - 1 {
            fail!("linear returned {} segments for {} knots; {}", pw.segments.len(), n, describe());
        }
        for i in 0..n - 1 {
            let e = pw.segments[i].end;
            ctx.comparisons += 1;
            let same = e.to_bits() == xm[i + 1].to_bits() || (e == 0.0 && xm[i + 1] == 0.0);
            if !same {
                fail!("segment #{i} ends at {} but the running maximum of the abscissae up to knot {} is {}; {}", hex(e), i + 1, hex(xm[i + 1]), describe());
            }
            if i > 0 && !(pw.segments[i - 1].end <= e) {
                fail!("breakpoints decrease: {} then {}; {}", hex(pw.segments[i - 1].end), hex(e), describe());
            }
        }
        // labels / non-triviality
        let out_of_order = xs.windows(2).any(|w| w[1] <= w[0]);
        let near_eps = (0..n - 1).any(|i| {
            let w = xm[i + 1] - xm[i];
            w >= EPS / 2.0 && w <= 2.0 * EPS
        });
        let strictly = (0..n - 1).all(|i| d(xs[i + 1]).sub(&d(xs[i])).cmp(&d(EPS)) != std::cmp::Ordering::Less);
        let at_interior_knot = strictly && n >= 3 && ts.iter().any(|t| xs[1..n - 1].iter().any(|x| x == t));
        if out_of_order {
            ctx.label("out-of-order or repeated abscissa");
        }
        if near_eps {
            ctx.label("gap within [eps/2, 2eps]");
        }
        if strictly {
            ctx.label("strictly increasing, gaps >= eps");
        }
        ctx.nontrivial = n >= 3 && (out_of_order || near_eps || at_interior_knot);
        // (2a) for EVERY finite input: a segment narrower than machine epsilon (exact width) is the constant at its
        // left ordinate - no arithmetic on the ordinates is involved, so this holds for huge ordinates too
        {
            let eps_lo0 = d(EPS).sub(&Dy::pow2(-105));
            for i in 0..n - 1 {
                let w = d(xm[i + 1]).sub(&d(xm[i]));
                if w.lt(&eps_lo0) {
                    let c = pw.segments[i].poly.0;
                    ctx.comparisons += 1;
                    if !(c[1] == 0.0 && c[0] == ys[i]) {
                        fail!("segment #{i} is narrower than machine epsilon (width {}) so it must be the constant y_{i} = {}, but it is {:?}; {}", w.show(), hex(ys[i]), c, describe());
                    }
                }
            }
        }
        // value clauses only for moderate magnitudes
        let moderate = xs.iter().chain(ys.iter()).all(|v| *v == 0.0 || (v.abs() >= 2.0f64.powi(-200) && v.abs() <= 2.0f64.powi(200)));
        if !moderate {
            ctx.label("value clauses skipped (magnitudes outside 2^±200)");
            return Outcome::Pass;
        }
        // (2) per segment
        let eps_lo = d(EPS).sub(&Dy::pow2(-105)); // eps(1-2^-53)
        let tiny = Dy::pow2(-1000);
        for i in 0..n - 1 {
            let c = pw.segments[i].poly.0;
            let (x0, x1) = (d(xm[i]), d(xm[i + 1]));
            let (y0, y1) = (d(ys[i]), d(ys[i + 1]));
            let w = x1.sub(&x0);
            if !c[0].is_finite() || !c[1].is_finite() {
                fail!("segment #{i} has non-finite coefficients {:?}; {}", c, describe());
            }
            ctx.comparisons += 2;
            if w.lt(&eps_lo) {
                ctx.label("narrow segment (constant)");
                if !(c[1] == 0.0 && c[0] == ys[i]) {
                    fail!("segment #{i} is narrower than machine epsilon (width {}) so it must be the constant y_{i} = {}, but it is {:?}; {}", w.show(), hex(ys[i]), c, describe());
                }
                continue;
            }
            let wide = !w.lt(&d(EPS));
            if !wide {
                ctx.label("sliver segment (either behaviour)");
                if c[1] == 0.0 && c[0] == ys[i] {
                    continue;
                }
            }
            let (c0, c1) = (d(c[0]), d(c[1]));
            let left = c0.add(&c1.mul(&x0));
            let tl = u().mul(&y0.abs().add(&c1.mul(&x0).abs())).mul_u64(8).add(&tiny);
            if !left.sub(&y0).abs().le(&tl) {
                fail!("segment #{i} {:?} does not pass through its (abscissa-forced) left knot ({}, {}): exact value there {} (allowed deviation {}); {}", c, hex(xm[i]), hex(ys[i]), left.show(), tl.show(), describe());
            }
            let right = c0.add(&c1.mul(&x1));
            let tr = u().mul(&y0.abs().add(&y1.abs()).add(&c1.abs().mul(&x0.abs().add(&x1.abs())))).mul_u64(8).add(&tiny);
            if !right.sub(&y1).abs().le(&tr) {
                fail!("segment #{i} {:?} (width {} >= eps) does not pass through its right knot ({}, {}): exact value there {} (allowed deviation {}); {}", c, w.show(), hex(xm[i + 1]), hex(ys[i + 1]), right.show(), tr.show(), describe());
            }
            let e = Bf::from_dy(&right.sub(&y1).abs());
            if !e.is_zero() {
                ctx.ratio("right knot: |line(X_(i+1)) - y_(i+1)| / bound", e.div(&Bf::from_dy(&tr)).to_f64());
            }
        }
        // (3') evaluation through Piecewise::evaluate for EVERY input: the segment the selection model picks on
        // the returned ends is the line through its two forced knots (or the constant y_i when narrower than eps)
        {
            let ends_out: Vec<f64> = pw.segments.iter().map(|s| s.end).collect();
            let mut pts: Vec<f64> = xm.clone();
            pts.extend(ts.iter().cloned());
            pts.extend_from_slice(&[0.0, -0.0]);
            for &t in &pts {
                if !(t == 0.0 || (t.abs() <= 2.0f64.powi(200) && t.abs() >= 2.0f64.powi(-200))) {
                    continue;
                }
                let j = select(&ends_out, t);
                let (x0, x1, y0, y1) = (d(xm[j]), d(xm[j + 1]), d(ys[j]), d(ys[j + 1]));
                let w = x1.sub(&x0);
                let got = lib!(pw.evaluate(t));
                let c = pw.segments[j].poly.0;
                let c1 = d(c[1]);
                let mag = y0.abs().add(&y1.abs()).add(&c1.abs().mul(&x0.abs().add(&x1.abs()).add(&d(t).abs())));
                let evalb = u().mul(&d(c[0]).abs().add(&c1.mul(&d(t)).abs())).mul_u64(12);
                let tol = u().mul(&mag).mul_u64(8).add(&evalb).add(&tiny).add(&mag.mul_pow2(-300));
                let const_ok = within(got, &y0, &tol);
                let line_ok = if w.sign() > 0 {
                    let num = y1.sub(&y0).mul(&d(t).sub(&x0));
                    let exact = Bf::from_dy(&y0).add(&Bf::from_dy(&num).div(&Bf::from_dy(&w)));
                    within(got, exact.dy(), &tol)
                } else {
                    false
                };
                let ok = if w.lt(&eps_lo) { const_ok } else if !w.lt(&d(EPS)) { line_ok } else { const_ok || line_ok };
                ctx.comparisons += 1;
                if !ok {
                    fail!(
                        "linear(..).evaluate({}) = {} but the segment selected there (#{j}, between the forced knots ({}, {}) and ({}, {})) is {} there; {}",
                        hex(t), hex(got), hex(xm[j]), hex(ys[j]), hex(xm[j + 1]), hex(ys[j + 1]),
                        if w.lt(&eps_lo) { "the constant y_left (segment narrower than eps)" } else { "the straight line through them" }, describe()
                    );
                }
            }
        }
        // (3) evaluation through Piecewise::evaluate
        if strictly {
            let ends: Vec<f64> = xs[1..].to_vec();
            let mut pts: Vec<f64> = xs.clone();
            pts.extend(ts.iter().cloned().filter(|t| t.is_finite() && (*t == 0.0 || (t.abs() <= 2.0f64.powi(200) && t.abs() >= 2.0f64.powi(-200)))));
            for &t in &pts {
                let got = lib!(pw.evaluate(t));
                let j = select(&ends, t); // segment j joins knots j and j+1
                let (x0, x1, y0, y1) = (d(xs[j]), d(xs[j + 1]), d(ys[j]), d(ys[j + 1]));
                // exact line value: y0 + (y1-y0)(t-x0)/(x1-x0)
                let num = y1.sub(&y0).mul(&d(t).sub(&x0));
                let exact = Bf::from_dy(&y0).add(&Bf::from_dy(&num).div(&Bf::from_dy(&x1.sub(&x0))));
                let c = pw.segments[j].poly.0;
                let c1 = d(c[1]);
                let mag = y0.abs().add(&y1.abs()).add(&c1.abs().mul(&x0.abs().add(&x1.abs()).add(&d(t).abs())));
                let evalb = u().mul(&d(c[0]).abs().add(&c1.mul(&d(t)).abs())).mul_u64(12);
                let tol = u().mul(&mag).mul_u64(8).add(&evalb).add(&tiny).add(&mag.mul_pow2(-300));
                ctx.comparisons += 1;
                if !within(got, exact.dy(), &tol) {
                    fail!(
                        "linear(..).evaluate({}) = {} but the straight line through knots #{j} and #{} gives {} (allowed deviation {}); {}",
                        hex(t), hex(got), j + 1, exact.dy().show(), tol.show(), describe()
                    );
                }
                ctx.ratio("evaluate vs exact line", ratio(got, exact.dy(), &tol));
                if xs.iter().any(|x| *x == t) {
                    ctx.label("evaluated at a knot");
                } else if t < xs[0] || t > xs[n - 1] {
                    ctx.label("extrapolated");
                } else {
                    ctx.label("evaluated between knots");
                }
            }
        }
        Outcome::Pass
    }
    fn size(&self, c: &Case) -> usize {
        c.xs.len()
    }
}
