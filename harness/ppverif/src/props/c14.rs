//! C14 — scaling, negation, addition and translation of functions act pointwise.

use crate::fl::{hex, B};
use crate::gen;
use crate::model::{nums_eq, Nums, PolyK};
use crate::num::*;
use crate::runner::{Ctx, Outcome, Prop, Tier};
use crate::{dispatch_deg, fail, lib};
use piecewise_polynomial::*;
use ppv_exact::{d, Dy};
use proptest::collection::vec;
use proptest::prelude::*;
use serde::{Deserialize, Serialize};
use std::ops::{Add, Mul, MulAssign, Neg};

pub const MUL: u8 = 0;
pub const MUL_ASSIGN: u8 = 1;
pub const NEG: u8 = 2;
pub const ADD: u8 = 3;
pub const TRANSLATE: u8 = 4;
pub const ADD_REF: u8 = 5;
pub const SUB: u8 = 6;
pub const SUB_REF: u8 = 7;
pub const OP_NAMES: [&str; 8] = ["Mul<f64>", "MulAssign<f64>", "Neg", "Add", "Translate", "&a+&b", "Sub", "&a-&b"];
pub const FAM_NAMES: [&str; 5] = ["PolyK", "PolyN", "Log<PolyK>", "IntOfLog<PolyK>", "IntOfLogPoly4"];

/// All (family, op) pairs that exist in the library.
pub fn instances() -> Vec<(u8, u8)> {
    let mut v = Vec::new();
    for op in [MUL, MUL_ASSIGN, NEG, ADD, TRANSLATE] {
        v.push((0, op));
    }
    v.push((1, TRANSLATE));
    for op in [MUL, MUL_ASSIGN, TRANSLATE] {
        v.push((2, op));
    }
    for op in [MUL, MUL_ASSIGN, NEG, ADD, TRANSLATE] {
        v.push((3, op));
    }
    for op in [MUL, NEG, ADD, ADD_REF, SUB, SUB_REF, TRANSLATE] {
        v.push((4, op));
    }
    v
}

#[derive(Clone, Debug, Hash, Serialize, Deserialize)]
pub struct Case {
    pub fam: u8,
    pub op: u8,
    pub deg: u8,
    pub a: Vec<B>,
    pub b: Vec<B>,
    pub s: B,
    pub x: B,
}

pub struct C14;

/// expected numbers from the inputs by one correctly rounded f64 operation each
fn expected(op: u8, a: &[f64], b: &[f64], s: f64) -> Vec<f64> {
    match op {
        MUL | MUL_ASSIGN => a.iter().map(|v| v * s).collect(),
        NEG => a.iter().map(|v| -v).collect(),
        ADD | ADD_REF => a.iter().zip(b).map(|(x, y)| x + y).collect(),
        SUB | SUB_REF => a.iter().zip(b).map(|(x, y)| x - y).collect(),
        TRANSLATE => {
            let mut r = a.to_vec();
            if r.is_empty() {
                r.push(s);
            } else {
                r[0] += s;
            }
            r
        }
        _ => unreachable!(),
    }
}

fn ops_full<T>(op: u8, a: &[f64], b: &[f64], s: f64) -> Result<Vec<f64>, String>
where
    T: Nums + Copy + Mul<f64, Output = T> + MulAssign<f64> + Neg<Output = T> + Add<Output = T> + Translate,
{
    let (pa, pb) = (T::from_nums(a), T::from_nums(b));
    crate::runner::lib(|| match op {
        MUL => (pa * s).flat(),
        MUL_ASSIGN => {
            let mut m = pa;
            m *= s;
            m.flat()
        }
        NEG => (-pa).flat(),
        ADD => (pa + pb).flat(),
        TRANSLATE => {
            let mut m = pa;
            m.translate(s);
            m.flat()
        }
        _ => unreachable!(),
    })
}
fn ops_log<P>(op: u8, a: &[f64], s: f64) -> Result<Vec<f64>, String>
where
    P: Nums + Copy + Mul<f64, Output = P> + MulAssign<f64> + Translate,
{
    let pa = Log(P::from_nums(a));
    crate::runner::lib(|| match op {
        MUL => (pa * s).flat(),
        MUL_ASSIGN => {
            let mut m = pa;
            m *= s;
            m.flat()
        }
        TRANSLATE => {
            let mut m = pa;
            m.translate(s);
            m.flat()
        }
        _ => unreachable!(),
    })
}
fn ops_poly<P>(op: u8, a: &[f64], b: &[f64], s: f64) -> Result<Vec<f64>, String>
where
    P: Nums + Copy + Mul<f64, Output = P> + MulAssign<f64> + Neg<Output = P> + Add<Output = P> + Translate,
{
    ops_full::<P>(op, a, b, s)
}
fn ops_iol<P>(op: u8, a: &[f64], b: &[f64], s: f64) -> Result<Vec<f64>, String>
where
    P: Nums + Copy + Mul<f64, Output = P> + MulAssign<f64> + Neg<Output = P> + Add<Output = P> + Translate,
{
    ops_full::<IntOfLog<P>>(op, a, b, s)
}
fn ops_q4(op: u8, a: &[f64], b: &[f64], s: f64) -> Result<Vec<f64>, String> {
    let (pa, pb) = (IntOfLogPoly4::from_nums(a), IntOfLogPoly4::from_nums(b));
    crate::runner::lib(|| match op {
        MUL => (pa * s).flat(),
        NEG => (-pa).flat(),
        ADD => (pa + pb).flat(),
        ADD_REF => (&pa + &pb).flat(),
        SUB => (pa - pb).flat(),
        SUB_REF => (&pa - &pb).flat(),
        TRANSLATE => {
            let mut m = pa;
            m.translate(s);
            m.flat()
        }
        _ => unreachable!(),
    })
}
fn eval_poly<P: PolyK>(c: &[f64], x: f64) -> f64 {
    P::from_coeffs(c).evaluate(x)
}

use crate::model::Flat;

impl Prop for C14 {
    type Case = Case;
    fn id(&self) -> &'static str {
        "C14"
    }
    fn rule(&self) -> String {
        "case = ((family, operator) uniform over the 21 operator impls that exist: PolyK{Mul,MulAssign,Neg,Add,Translate}, PolyN{Translate}, Log<PolyK>{Mul,MulAssign,Translate}, IntOfLog<PolyK>{Add,Mul,MulAssign,Neg,Translate}, IntOfLogPoly4{Mul,Neg,Add,&+&,Sub,&-&,Translate}; degree 0..=8 uniform (125 (impl,degree) instances); operands with pairwise distinct finite numbers over the full exponent range (tiny, huge, ±0) or moderate ones; scalar from {0,-0,±1,±2,1±ulp,tiny,huge,random}; 1 case in 8 has a random subset of the operands' numbers exactly zero; 1 translate case in 8 uses a constant of a quarter ulp to a few ulps of the additive constant; 1 case in 8 plants b_i = -a_i on a random subset; 1 case in 8 uses the scalar -c0, c0, 1/c0 or 2c0). Oracle: every number of the result equals the single correctly rounded f64 operation on the corresponding input numbers (identical bits; the sign of a zero result is not pinned); translate changes only the additive constant; empty PolyN becomes [c]; `*=` equals `*`. Value clause for plain polynomials: result.evaluate(x) vs s·f(x), -f(x), f1(x)+f2(x), f(x)+c computed exactly from the inputs within the C01 bound plus one u per coefficient (when all terms are within 2^±900). Non-trivial: >=2 numbers per operand, pairwise distinct across operands (an index slip changes the result).".into()
    }
    fn cases(&self, tier: Tier) -> u64 {
        tier.pick(1_500_000, 20_000_000)
    }
    fn strategy(&self, _tier: Tier) -> BoxedStrategy<Case> {
        let inst = instances();
        let scalars = prop_oneof![
            2 => gen::from_table(&[0.0, -0.0, 1.0, -1.0, 2.0, -2.0, 0.5, 3.0, -7.0, 1e-300, -1e300, 5e-324, f64::MAX, 1.5, 0.9999999999999999, 1.0000000000000002, -0.9999999999999999, 0.9999999999999998]),
            2 => gen::any_finite(),
            1 => gen::moderate(10),
        ];
        let nums = || prop_oneof![2 => gen::distinct_numbers(20), 1 => vec(gen::moderate(8), 20), 1 => vec(gen::any_finite(), 20)];
        (0..inst.len(), 0u8..9, 0usize..=12, nums(), scalars, gen::moderate(6), (0u8..8, any::<u32>(), 40i32..=60, 0u32..64))
            .prop_map(move |(ii, deg, nlen, mut pool, mut s, x, (zmode, zmask, absorb_e, absorb_m))| {
                let (fam, op) = inst[ii];
                // structured zeros: operands whose numbers are exactly 0.0 in a random subset of positions
                // (a "pure offset", a lower-degree function stored in a wider type, ...)
                if zmode == 0 {
                    for (i, v) in pool.iter_mut().enumerate() {
                        if (zmask >> (i % 32)) & 1 == 1 {
                            *v = 0.0;
                        }
                    }
                }
                // exact relations between the two operands / the operand and the scalar
                if zmode == 2 {
                    // b_i = -a_i on a random subset (sums that cancel exactly in some positions but not in others)
                    for i in 0..10 {
                        if (zmask >> (i % 32)) & 1 == 1 {
                            pool[10 + i] = -pool[i];
                        }
                    }
                }
                if zmode == 3 && pool[0] != 0.0 && pool[0].is_finite() {
                    // scalar = -c0, c0, 1/c0, 2*c0 (e.g. translate by exactly the negated constant term)
                    let t = [-pool[0], pool[0], 1.0 / pool[0], 2.0 * pool[0]][(absorb_m % 4) as usize];
                    if t.is_finite() {
                        s = t;
                    }
                }
                // translate by a constant at the absorption boundary of the additive constant:
                // |c| between a quarter ulp and a few ulps of it
                if zmode == 1 && op == TRANSLATE && pool[0] != 0.0 && pool[0].is_finite() {
                    let t = pool[0].abs() * 2.0f64.powi(-absorb_e) * (1.0 + absorb_m as f64 / 64.0);
                    if t.is_finite() && t != 0.0 {
                        s = if absorb_m % 2 == 0 { t } else { -t };
                    }
                }
                let n = match fam {
                    0 | 2 => deg as usize + 1,
                    1 => nlen.min(10),
                    3 => deg as usize + 2,
                    _ => 6,
                };
                Case {
                    fam,
                    op,
                    deg,
                    a: pool[..n].iter().map(|&v| B(v)).collect(),
                    b: pool[10..10 + n].iter().map(|&v| B(v)).collect(),
                    s: B(s),
                    x: B(x),
                }
            })
            .boxed()
    }
    fn check(&self, case: &Case, ctx: &mut Ctx) -> Outcome {
        let (fam, op, deg) = (case.fam, case.op, case.deg % 9);
        if !instances().contains(&(fam, op)) {
            return Outcome::Skip("no such operator impl");
        }
        let a: Vec<f64> = case.a.iter().map(|v| v.0).collect();
        let b: Vec<f64> = case.b.iter().map(|v| v.0).collect();
        let (s, x) = (case.s.0, case.x.0);
        let n = match fam {
            0 | 2 => deg as usize + 1,
            1 => a.len(),
            3 => deg as usize + 2,
            _ => 6,
        };
        if a.len() != n || b.len() != n || !s.is_finite() || a.iter().chain(b.iter()).any(|v| !v.is_finite()) {
            return Outcome::Skip("malformed case");
        }
        ctx.label(FAM_NAMES[fam as usize]);
        ctx.label(OP_NAMES[op as usize]);
        ctx.label(if s == 0.0 { "s=0" } else if s.abs() == 1.0 { "s=±1" } else if s.abs() < 1e-100 { "s tiny" } else if s.abs() > 1e100 { "s huge" } else { "s ordinary" });
        let got = match fam {
            0 => dispatch_deg!(deg, ops_poly(op, &a, &b, s)),
            1 => crate::runner::lib(|| {
                let mut p = PolyN(a.clone());
                p.translate(s);
                p.0
            }),
            2 => dispatch_deg!(deg, ops_log(op, &a, s)),
            3 => dispatch_deg!(deg, ops_iol(op, &a, &b, s)),
            _ => ops_q4(op, &a, &b, s),
        };
        let got = match got {
            Ok(g) => g,
            Err(m) => fail!("{} {} degree {deg}: library panicked: {m}", FAM_NAMES[fam as usize], OP_NAMES[op as usize]),
        };
        let want = expected(op, &a, &b, s);
        ctx.comparisons += want.len() as u64;
        if !nums_eq(&got, &want) {
            let pos = got.iter().zip(&want).position(|(g, w)| !crate::model::num_eq(*g, *w));
            fail!(
                "{} {} (degree {deg}): a={:?} b={:?} scalar={}: result numbers {:?} but the correctly rounded coefficient-wise result is {:?} (first difference at position {:?})",
                FAM_NAMES[fam as usize], OP_NAMES[op as usize], a, b, hex(s), got, want, pos
            );
        }
        let mut all: Vec<u64> = a.iter().chain(if matches!(op, ADD | ADD_REF | SUB | SUB_REF) { b.iter() } else { [].iter() }).map(|v| v.to_bits()).collect();
        all.sort();
        let distinct = all.windows(2).all(|w| w[0] != w[1]);
        ctx.nontrivial = n >= 2 && distinct;
        // value clause for plain polynomials
        if fam <= 1 && x.is_finite() && !got.is_empty() && got.iter().all(|v| v.is_finite()) {
            let xd = d(x);
            let dom = |c: &[f64]| {
                let mut pw = Dy::one();
                for (i, &ci) in c.iter().enumerate() {
                    if i > 0 {
                        pw = pw.mul(&xd);
                    }
                    // terms, powers AND the bare coefficients (intermediates of Horner/Estrin contain them)
                    if !in_range(&pw, 900) || !in_range(&pw.mul(&d(ci)), 900) || !in_range(&d(ci), 900) {
                        return false;
                    }
                }
                true
            };
            if dom(&a) && dom(&b) && dom(&got) && in_range(&d(s), 400) {
                let fa = poly_exact(&a, &xd);
                let fb = poly_exact(&b, &xd);
                let (exact, maj) = match op {
                    MUL | MUL_ASSIGN => (fa.mul(&d(s)), poly_abs(&a, &xd).mul(&d(s).abs())),
                    NEG => (fa.neg(), Dy::zero()),
                    ADD => (fa.add(&fb), poly_abs(&a, &xd).add(&poly_abs(&b, &xd))),
                    _ => (fa.add(&d(s)), d(a.first().cloned().unwrap_or(0.0)).abs().add(&d(s).abs())),
                };
                let v = if fam == 1 { lib!(PolyN(got.clone()).evaluate(x)) } else { lib!(dispatch_deg!(deg, eval_poly(&got, x))) };
                let degr = got.len().saturating_sub(1) as u64;
                let kk = if degr == 0 { 0 } else { 4 * (degr + 2) };
                // subnormal products lose relative accuracy: add an absolute allowance of one least subnormal per coefficient scaled by |x|^i
                let tiny = poly_abs(&vec![5e-324; got.len()], &xd);
                let bound = u().mul(&poly_abs(&got, &xd)).mul_u64(kk).add(&u().mul(&maj)).add(&tiny);
                ctx.comparisons += 1;
                if !within(v, &exact, &bound) {
                    fail!(
                        "{} {} (degree {deg}): a={:?} b={:?} scalar={}: result evaluated at {} gives {} but the pointwise value is {} (error {:.3e} × bound)",
                        FAM_NAMES[fam as usize], OP_NAMES[op as usize], a, b, hex(s), hex(x), hex(v), exact.show(), ratio(v, &exact, &bound)
                    );
                }
                ctx.label("value clause judged");
            }
        }
        Outcome::Pass
    }
    fn size(&self, c: &Case) -> usize {
        c.a.len()
    }
}
