//! C01 — polynomial and log-polynomial evaluation equals the mathematical value.

use crate::fl::{hex, B};
use crate::gen;
use crate::model::PolyK;
use crate::num::*;
use crate::runner::{Ctx, Outcome, Prop, Tier};
use crate::{dispatch_deg, fail, lib};
use piecewise_polynomial::*;
use ppv_exact::{d, next_down, next_up, Bf, Dy};
use proptest::prelude::*;
use serde::{Deserialize, Serialize};

/// form 0..=8: Poly{form}; 9: PolyN (length = c.len()); 10..=18: Log<Poly{form-10}>; 19: Log<PolyN>
#[derive(Clone, Debug, Hash, Serialize, Deserialize)]
pub struct Case {
    pub form: u8,
    pub c: Vec<B>,
    pub x: B,
}

pub struct C01;

fn eval_k<P: PolyK>(c: &[f64], x: f64) -> f64 {
    P::from_coeffs(c).evaluate(x)
}
fn eval_log_k<P: PolyK>(c: &[f64], v: f64) -> f64 {
    Log(P::from_coeffs(c)).evaluate(v)
}

pub fn form_name(form: u8) -> &'static str {
    const N: [&str; 20] = [
        "Poly0", "Poly1", "Poly2", "Poly3", "Poly4", "Poly5", "Poly6", "Poly7", "Poly8", "PolyN", "Log<Poly0>", "Log<Poly1>", "Log<Poly2>",
        "Log<Poly3>", "Log<Poly4>", "Log<Poly5>", "Log<Poly6>", "Log<Poly7>", "Log<Poly8>", "Log<PolyN>",
    ];
    N[form as usize % 20]
}

static X_SPECIALS: &[f64] = &[
    0.0, -0.0, 1.0, -1.0, 3.0, -3.0, 17.0, -17.0, 0.5, -0.5, 2.0, -2.0, 0.1, -0.1, 1.0000000000000002, 0.9999999999999999, -1.0000000000000002, 7.0,
    1.5, -0.75, 10.0, 0.3333333333333333,
];

fn x_strategy(emax: i32) -> BoxedStrategy<f64> {
    prop_oneof![
        3 => gen::from_table(X_SPECIALS),
        3 => gen::scaled(-3, 3),
        2 => gen::scaled(-emax, emax),
        1 => (-40i32..=40).prop_map(|i| i as f64),
    ]
    .boxed()
}

pub fn v_strategy() -> BoxedStrategy<f64> {
    prop_oneof![
        2 => (-64i32..=64).prop_map(|k| gen::nudge(1.0, k)),
        // v = 1 ± m·2^-j: from a few ulps to a few per cent away from 1
        2 => (1i32..=52, 1u32..=64, any::<bool>()).prop_map(|(j, m, s)| { let d = m as f64 * 2.0f64.powi(-j - 6); if s { 1.0 + d } else { 1.0 - d } }),
        2 => (-40i32..=40).prop_map(|j| (j as f64).exp()),
        3 => gen::scaled_pos(-4, 4),
        1 => gen::scaled_pos(-1000, 1000),
        1 => gen::scaled_pos(-1074, -1023),
        1 => gen::from_table(&[f64::MIN_POSITIVE, f64::MAX, 5e-324, 7.0, 2.0, 0.5, std::f64::consts::E, 1.0]),
    ]
    .boxed()
}

fn exact_class() -> BoxedStrategy<Case> {
    (0u8..10, proptest::collection::vec(-1000i32..=1000, 13), -20i32..=20, -40i32..=40, 0usize..=12)
        .prop_map(|(form, ci, x, sc, nlen)| {
            let n = if form == 9 { nlen } else { form as usize + 1 };
            let s = ppv_exact::pow2_f64(sc as i64);
            let mut ci = ci;
            // 1 case in 4: plant an exact ROOT (the constant term cancels the rest exactly, the value is 0)
            if n >= 2 && sc % 4 == 0 {
                let rest: i128 = (1..n).map(|i| ci[i] as i128 * (x as i128).pow(i as u32)).sum();
                if rest.abs() < (1i128 << 30) {
                    ci[0] = -(rest as i32);
                }
            }
            Case { form, c: ci[..n].iter().map(|&k| B(k as f64 * s)).collect(), x: B(x as f64) }
        })
        .boxed()
}

impl Prop for C01 {
    type Case = Case;
    fn id(&self) -> &'static str {
        "C01"
    }
    fn rule(&self) -> String {
        "case = (form in {Poly0..Poly8, PolyN of length 0..=12 (1 in 10: up to 48), Log<Poly0..Poly8>, Log<PolyN>} uniform, coefficient vector with cancellation patterns (alternating signs, one dominating term, two nearly cancelling terms, single non-zero, all comparable, all zero; exponents up to ±200), argument x (specials ±0 ±1 ±3 ±17 1±ulp fractions; |x| in 2^±3; 2^±60; integers) or v>0 for Log (1±k ulp, e^j, moderate, full range, subnormal, MIN_POSITIVE, MAX)); plus an 'exact class' (integer x, integer coefficients times a common power of two, S(x)<2^53) where the result must equal the exact value. Oracle: exact dyadic Σc_i x^i and S=Σ|c_i||x|^i; |fl-P| <= 4(n+2)·2^-53·S as an exact inequality; Log: p at ln v computed to >300 bits, bound 4(n+2)u·S(l)+ulp(l)·Σi|c_i|l^(i-1). Domain (re-checked exactly, else counted as excluded): every c_i x^i and power of x within 2^±900. Non-trivial: degree>=1, x∉{0,±1} (v≠1), >=2 non-zero coefficients. Distinct by hash of (form, coefficient bits, argument bits).".into()
    }
    fn assumptions(&self) -> Vec<String> {
        vec!["Log: the platform ln is within one ulp of the true logarithm (the property grants exactly that)".into()]
    }
    fn cases(&self, tier: Tier) -> u64 {
        tier.pick(1_000_000, 20_000_000)
    }
    fn strategy(&self, _tier: Tier) -> BoxedStrategy<Case> {
        let general = (0u8..20, prop_oneof![9 => 0usize..=12, 1 => 13usize..=48], any::<u8>()).prop_flat_map(|(form, nlen, wide)| {
            let n = match form {
                0..=8 => form as usize + 1,
                9 | 19 => nlen,
                _ => (form - 10) as usize + 1,
            };
            let emax_c = if wide % 4 == 0 { 200 } else { 30 };
            let arg = if form >= 10 { v_strategy() } else { x_strategy(if form == 9 { if wide % 8 == 1 { 600 } else { 40 } } else { 60 }) };
            (Just(form), gen::coeffs(n, emax_c), arg).prop_map(|(form, c, x)| Case { form, c: c.into_iter().map(B).collect(), x: B(x) })
        });
        // dynamic-degree form at EXTREME |x|: j low-order exact zeros, then 1..3 coefficients balanced so that
        // every term c_i·x^i is moderate although x^i itself is far outside the f64 range (a Horner scheme never
        // forms x^i; a rewrite that does - x.powi(k) - breaks here)
        let extreme = (any::<bool>(), 2usize..=6, 1usize..=3, 180i32..=500, any::<bool>(), proptest::collection::vec(-40i32..=850, 3), any::<bool>()).prop_map(|(log, j, m, e, up, t, neg)| {
            let e = if up { e } else { -e };
            let x = ppv_exact::pow2_f64(e as i64) * if neg { -1.5 } else { 1.0 };
            let mut c = vec![0.0; j];
            for k in 0..m {
                let i = (j + k) as i64;
                // coefficient 2^ex within 2^±890, term c·x^i = 2^t (up to 2^850) although x^i may be far out of range
                let ex = -(e as i64) * i + if up { t[k] as i64 } else { -(t[k] as i64) };
                c.push(if (-890..=890).contains(&ex) { ppv_exact::pow2_f64(ex) * (1.0 + k as f64 * 0.25) } else { 0.0 });
            }
            let _ = log;
            Case { form: 9, c: c.into_iter().map(B).collect(), x: B(x) }
        });
        let _ = extreme; // kept for reference: every such case is outside the scheme-independent domain
        prop_oneof![4 => general, 1 => exact_class()].boxed()
    }
    fn check(&self, case: &Case, ctx: &mut Ctx) -> Outcome {
        let form = case.form % 20;
        let c: Vec<f64> = case.c.iter().map(|b| b.0).collect();
        let x = case.x.0;
        let n = match form {
            0..=8 => form as usize + 1,
            9 | 19 => c.len(),
            _ => (form - 10) as usize + 1,
        };
        if c.len() != n || c.iter().any(|v| !v.is_finite()) || !x.is_finite() {
            return Outcome::Skip("malformed case");
        }
        ctx.label(form_name(form));
        let deg = n.saturating_sub(1);
        let nonzero = c.iter().filter(|v| **v != 0.0).count();
        if form < 10 {
            // ---- plain polynomial ----
            let got = match form {
                9 => lib!(PolyN(c.clone()).evaluate(x)),
                f => lib!(dispatch_deg!(f, eval_k(&c, x))),
            };
            ctx.comparisons += 1;
            if n == 0 {
                if got != 0.0 {
                    fail!("empty PolyN evaluated at {} gave {} (must be 0)", hex(x), hex(got));
                }
                return Outcome::Pass;
            }
            let xd = d(x);
            // domain: every partial term and every power of x within 2^±900
            let mut pw = Dy::one();
            for (i, &ci) in c.iter().enumerate() {
                if i > 0 {
                    pw = pw.mul(&xd);
                }
                // bare powers x^i (i >= 2) must be in range for EVERY form: the property's bound is meant to hold
                // 'whatever evaluation scheme is used', and Estrin as well as forward-power schemes form x^i
                // (the unrolled Poly2..Poly8 of the library do); x itself is an exact input
                let power_ok = i <= 1 || in_range(&pw, 900);
                if !power_ok || !in_range(&pw.mul(&d(ci)), 900) || !in_range(&d(ci), 900) {
                    return Outcome::Skip("a partial term overflows/underflows 2^±900");
                }
            }
            let p = poly_exact(&c, &xd);
            let s = poly_abs(&c, &xd);
            // exact class?
            let int_x = x == x.trunc() && (x == 0.0 || x.abs() >= 1.0);
            let exact_class = int_x && {
                // coefficients are integers times one common power of two, S < 2^53 in those units
                let minexp = c.iter().filter(|v| **v != 0.0).map(|v| d(*v).exp).min();
                match minexp {
                    None => true,
                    Some(e) => s.mul_pow2(-e).lt(&Dy::pow2(53)),
                }
            };
            ctx.nontrivial = deg >= 1 && x != 0.0 && x.abs() != 1.0 && nonzero >= 2;
            ctx.label(if x < 0.0 { "x<0" } else { "x>=0" });
            ctx.label(if x.abs() < 1.0 { "|x|<1" } else { "|x|>=1" });
            if exact_class {
                ctx.label("exact-class");
                if !(got.is_finite() && d(got) == p) {
                    fail!(
                        "{}: coefficients {:?} at x={}: every intermediate of any scheme is an exactly representable integer (S={}), so the result must be exactly {} but evaluate returned {}",
                        form_name(form), c, hex(x), s.show(), p.show(), hex(got)
                    );
                }
                return Outcome::Pass;
            }
            if !p.is_zero() && !s.is_zero() {
                let canc = s.top() - p.top();
                ctx.label(if canc > 20 { "cancellation>2^20" } else if canc > 3 { "cancellation>8" } else { "well-conditioned" });
            }
            let bound = if deg == 0 { Dy::zero() } else { u().mul(&s).mul_u64(4 * (deg as u64 + 2)) };
            if !within(got, &p, &bound) {
                fail!(
                    "{}: coefficients {:?} at x={}: evaluate returned {} but Σc_i x^i = {} ; |error| is {:.3e} × the allowed 4(n+2)·2^-53·Σ|c_i||x|^i = {}",
                    form_name(form), c, hex(x), hex(got), p.show(), ratio(got, &p, &bound), bound.show()
                );
            }
            if deg > 0 {
                ctx.ratio("polynomial: |fl-P| / (4(n+2)u·S)", ratio(got, &p, &bound));
            }
            Outcome::Pass
        } else {
            // ---- Log wrapper ----
            let v = x;
            if !(v > 0.0) {
                return Outcome::Skip("Log needs v > 0");
            }
            let got = if form == 19 { lib!(Log(PolyN(c.clone())).evaluate(v)) } else { lib!(dispatch_deg!(form - 10, eval_log_k(&c, v))) };
            ctx.comparisons += 1;
            if n == 0 {
                if got != 0.0 {
                    fail!("Log(empty PolyN) evaluated at {} gave {} (must be 0)", hex(v), hex(got));
                }
                return Outcome::Pass;
            }
            let lstar = Bf::from_f64(v).ln();
            let l_up = f64_above(&lstar); // >= |ln v| and >= |fl(ln v)| for any ln within 1 ulp
            let ld = d(l_up);
            let mut pw = Dy::one();
            for (i, &ci) in c.iter().enumerate() {
                if i > 0 {
                    pw = pw.mul(&ld);
                }
                if !in_range(&pw.mul(&d(ci)), 900) {
                    return Outcome::Skip("a partial term overflows/underflows 2^±900");
                }
            }
            // p(L*) in 384-bit arithmetic
            let p = poly_bf_f(&c, &lstar);
            let s = poly_abs(&c, &ld);
            let dp = dpoly_abs(&c, &ld);
            let ulp_l = if v == 1.0 { Dy::zero() } else { d(ppv_exact::ulp(l_up)) };
            let bound = u().mul(&s).mul_u64(4 * (deg as u64 + 2)).add(&ulp_l.mul(&dp));
            ctx.nontrivial = deg >= 1 && v != 1.0 && nonzero >= 2;
            ctx.label(if v < 1.0 { "v<1" } else if v == 1.0 { "v=1" } else { "v>1" });
            // reference is a Bf (rounded at 2^-380 relative): widen the bound by 2^-300·S
            let bound = bound.add(&s.mul_pow2(-300));
            if !within(got, p.dy(), &bound) {
                fail!(
                    "{}: coefficients {:?} at v={}: evaluate returned {} but p(ln v) = {} (ln v = {}); |error| is {:.3e} × the allowed bound {}",
                    form_name(form), c, hex(v), hex(got), p.dy().show(), lstar.dy().show(), ratio(got, p.dy(), &bound), bound.show()
                );
            }
            ctx.ratio("Log: |fl-p(ln v)| / bound", ratio(got, p.dy(), &bound));
            Outcome::Pass
        }
    }
    fn extras(&self, tier: Tier, _seed: u64, shard: u32, nshards: u32, sink: &mut dyn FnMut(Case, &'static str)) {
        // dense deterministic sweep of x for fixed coefficient vectors, every form
        let points = tier.pick(256usize, 4096usize);
        let vecs: Vec<Vec<f64>> = vec![
            (0..13).map(|i| (i as f64 + 1.0) * if i % 2 == 0 { 1.0 } else { -1.0 }).collect(),
            (0..13).map(|i| 1.0 / (i as f64 + 1.5)).collect(),
            (0..13).map(|i| [3.25, -0.7, 11.0, -2.5e-3, 0.125, 9.75, -1.0, 6.02e3, 1e-2, -4.4, 7.0, 0.3, -8.0][i]).collect(),
            (0..13).map(|i| if i % 3 == 0 { 0.0 } else { 2.0f64.powi(i as i32 - 6) }).collect(),
        ];
        let mut k = 0u32;
        for form in 0u8..20 {
            for (vi, cv) in vecs.iter().enumerate() {
                k += 1;
                if k % nshards != shard {
                    continue;
                }
                let n = match form {
                    0..=8 => form as usize + 1,
                    9 | 19 => 7 + vi,
                    _ => (form - 10) as usize + 1,
                };
                for j in 0..points {
                    let t = j as f64 / points as f64; // [0,1)
                    let x = if form >= 10 {
                        // v from e^-8 .. e^8, plus neighbours of 1
                        if j % 16 == 0 { gen::nudge(1.0, j as i32 / 16 - (points as i32 / 32)) } else { (16.0 * t - 8.0).exp() }
                    } else {
                        // x from -4..4 (dense), sign-symmetric
                        let base = 8.0 * t - 4.0;
                        if j % 2 == 0 { base } else { next_up(next_down(base) * 1.0000001) }
                    };
                    sink(Case { form, c: cv[..n].iter().map(|&v| B(v)).collect(), x: B(x) }, "dense-x-sweep");
                }
            }
        }
    }
    fn size(&self, c: &Case) -> usize {
        c.c.len()
    }
}
