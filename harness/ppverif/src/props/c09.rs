//! C09 — integrals of log-polynomials are true antiderivatives for every degree.

use super::c10::{kf1_matches, KF1_SIG};
use crate::fl::{hex, B};
use crate::gen;
use crate::logint::*;
use crate::model::{Flat, PolyK};
use crate::num::*;
use crate::runner::{Ctx, Outcome, Prop, Tier};
use crate::{dispatch_deg, fail};
use piecewise_polynomial::*;
use ppv_exact::{d, Bf, Dy};
use proptest::prelude::*;
use serde::{Deserialize, Serialize};

#[derive(Clone, Debug, Hash, Serialize, Deserialize)]
pub struct Case {
    pub deg: u8,
    pub p: Vec<B>,
    pub kx: B,
    pub ky: B,
    pub a: B,
    pub b: B,
}

pub struct C09;

/// K of DESIGN.md §4 C09: first-order analysis gives <= 82 for any implementation that forms q by
/// the recurrence and evaluates within C01's bound; doubled.
pub const K: u64 = 160;

pub struct Obs {
    pub f_kx: f64,
    pub f_a: f64,
    pub f_b: f64,
    pub i_a: f64,
    pub i_b: f64,
    pub indef_nums: Vec<f64>,
    pub integ_nums: Vec<f64>,
}

fn observe<P>(p: &[f64], knot: Knot, a: f64, b: f64) -> Result<Obs, String>
where
    P: PolyK,
    Log<P>: HasIntegral,
    <Log<P> as HasIntegral>::IntegralOf: Flat + Clone + PartialEq + std::fmt::Debug,
{
    let l = Log(P::from_coeffs(p));
    crate::runner::lib(|| {
        let f = l.integral(knot);
        let i = l.indefinite();
        Obs { f_kx: f.evaluate(knot.x), f_a: f.evaluate(a), f_b: f.evaluate(b), i_a: i.evaluate(a), i_b: i.evaluate(b), indef_nums: i.flat(), integ_nums: f.flat() }
    })
}

/// magnitude majorant of the integral form at t for integrand p (generic degrees: t·Σ Q̄_j|ln t|^j; quartic: its own shadows)
pub fn majorant(p: &[f64], t: f64) -> Dy {
    if p.len() == 5 {
        quartic_shadow_majorant(p, t).0.round_up_abs(128)
    } else {
        log_majorant(p, t)
    }
}

pub fn point_strategy() -> BoxedStrategy<f64> {
    prop_oneof![
        1 => Just(1.0),
        2 => (-64i32..=64).prop_map(|k| gen::nudge(1.0, k)),
        2 => (-20i32..=20).prop_map(|j| (j as f64).exp()),
        2 => (-30i32..=30).prop_map(|j| 2.0f64.powi(j)),
        5 => (0u32..=6000).prop_map(|i| 10f64.powf(i as f64 / 1000.0 - 3.0)),
        3 => gen::scaled_pos(-3, 3),
        1 => gen::from_table(&[1e300, 1e-300, 7.0, 2.0, 0.5, std::f64::consts::E, 0.79, 1.2]),
    ]
    .boxed()
}

impl Prop for C09 {
    type Case = Case;
    fn id(&self) -> &'static str {
        "C09"
    }
    fn rule(&self) -> String {
        "case = (degree 0..=8 uniform (the quartic has its own representation), coefficient vector with cancellation patterns, exponents up to ±30 (3/4) or ±200 (1/4), all ordinates (coefficients, knot.y) times a common power of two 2^k (k=0 in 70% of cases, else uniform in ±300); knot.x, a, b > 0 from {1, 1±k ulp, e^j, 2^±j, log-uniform in [1e-3,1e3], |x| in 2^±3, 1e±300, 7, 0.79, 1.2}; knot.y any; in 30% of cases the three points are multiplied by one common power of two 2^k, k in ±300, so that all of them lie in the same tiny or huge regime). Oracle, independent of the library's recurrence and of libm: G(t) = t·Q(ln t) with Q_j = Σ_{i>=j} p_i (-1)^(i-j) i!/j! (exact) and ln in 384-bit arithmetic; checked through Evaluate::evaluate of the returned object: |F(knot.x)-knot.y| <= K·u·(|knot.y|+M(knot.x)) and |(F(b)-F(a)) - (G(b)-G(a))| <= K·u·(|knot.y|+M(knot.x)+M(a)+M(b)), the same for indefinite() with |k| of the returned form in place of |knot.y| (which additive constant it carries is not pinned), K=160, M(t)=t·Σ_j Q̄_j|ln t|^j; degree 4: magnitudes of its own representation and factor 1e-12+K·u. Domain: all magnitudes within 2^±900. Non-trivial: degree>=1, >=2 non-zero coefficients, none of knot.x, a, b equal to 1.".into()
    }
    fn assumptions(&self) -> Vec<String> {
        vec!["K = 160 (DESIGN.md §4 C09) is the harness's reading of 'within the rounding bound of the construction'; measured worst ratio on the repaired tree is reported in DESIGN.md".into()]
    }
    fn cases(&self, tier: Tier) -> u64 {
        tier.pick(200_000, 3_000_000)
    }
    fn strategy(&self, _tier: Tier) -> BoxedStrategy<Case> {
        (0u8..9, any::<u8>(), point_strategy(), gen::moderate(40), point_strategy(), point_strategy(), gen::common_scale(300), gen::common_scale(300))
            .prop_flat_map(|(deg, wide, kx, ky, a, b, sc, xsc)| {
                let emax = if wide % 4 == 0 { 200 } else { 30 };
                // all three points in one regime (everything tiny / everything huge): t -> t·2^k
                let ok = |t: f64| (t * xsc).is_finite() && t * xsc > 1e-300;
                let (kx, a, b) = if ok(kx) && ok(a) && ok(b) { (kx * xsc, a * xsc, b * xsc) } else { (kx, a, b) };
                gen::coeffs(deg as usize + 1, emax).prop_map(move |p| Case { deg, p: p.into_iter().map(|v| B(v * sc)).collect(), kx: B(kx), ky: B(ky * sc), a: B(a), b: B(b) })
            })
            .boxed()
    }
    fn check(&self, case: &Case, ctx: &mut Ctx) -> Outcome {
        let deg = case.deg % 9;
        let p: Vec<f64> = case.p.iter().map(|v| v.0).collect();
        let (kx, ky, a, b) = (case.kx.0, case.ky.0, case.a.0, case.b.0);
        if p.len() != deg as usize + 1 || p.iter().any(|v| !v.is_finite()) || !ky.is_finite() || ![kx, a, b].iter().all(|t| *t > 0.0 && t.is_finite()) {
            return Outcome::Skip("malformed case");
        }
        ctx.label(["deg0", "deg1", "deg2", "deg3", "deg4 (quartic form)", "deg5", "deg6", "deg7", "deg8"][deg as usize]);
        // domain
        let (mk, ma, mb) = (majorant(&p, kx), majorant(&p, a), majorant(&p, b));
        if ![&mk, &ma, &mb].iter().all(|m| in_range(m, 900)) || !in_range(&d(ky), 900) {
            return Outcome::Skip("a magnitude is outside 2^±900");
        }
        // coefficient magnitudes themselves must be representable without over/underflow in the recurrence
        if q_bar(&p).iter().any(|q| !in_range(q, 900)) {
            return Outcome::Skip("a magnitude is outside 2^±900");
        }
        if deg == 4 && ctx.open(KF1_SIG) {
            // the quartic form built from p; ask the signature predicate about its own numbers
            let nums = lib_quartic_nums(&p);
            if [kx, a, b].iter().any(|&t| kf1_matches(&nums, t)) {
                return Outcome::Known(KF1_SIG);
            }
        }
        let knot = Knot::new(kx, ky);
        let obs = match dispatch_deg!(deg, observe(&p, knot, a, b)) {
            Ok(o) => o,
            Err(m) => fail!("Log<Poly{deg}>{p:?}.integral(({},{})): library panicked: {m}", hex(kx), hex(ky)),
        };
        let nonzero = p.iter().filter(|v| **v != 0.0).count();
        ctx.nontrivial = deg >= 1 && nonzero >= 2 && kx != 1.0 && a != 1.0 && b != 1.0;
        let pos = |t: f64| if t < 1.0 { "<1" } else if t == 1.0 { "=1" } else { ">1" };
        ctx.label(match (pos(kx), pos(a), pos(b)) {
            ("=1", _, _) => "knot.x=1",
            (_, "=1", _) | (_, _, "=1") => "a or b = 1",
            _ => "all points != 1",
        });
        let factor = |m: &Dy| -> Dy {
            let base = u().mul(m).mul_u64(K);
            if deg == 4 {
                base.add(&tol_1e12().0.mul(m).round_up_abs(128))
            } else {
                base
            }
        };
        let exact = log_integral(&p, a, b);
        let what = format!("Log<Poly{deg}>{p:?}");
        // (c) indefinite(): the property asks for AN antiderivative; which additive constant it carries is not pinned
        // (its magnitude enters the rounding bound of clause (d))
        ctx.comparisons += 4;
        let k_ind = obs.indef_nums[0];
        if !k_ind.is_finite() {
            fail!("{what}.indefinite() has a non-finite additive constant {}", hex(k_ind));
        }
        // (a) passes through the knot
        let b1 = factor(&d(ky).abs().add(&mk));
        if !within(obs.f_kx, &d(ky), &b1) {
            fail!(
                "{what}.integral(knot=({}, {})).evaluate(knot.x) = {} instead of knot.y; error is {:.3e} × the allowed {}",
                hex(kx), hex(ky), hex(obs.f_kx), ratio(obs.f_kx, &d(ky), &b1), b1.show()
            );
        }
        // (b) F(b) - F(a) is the integral
        if !obs.f_a.is_finite() || !obs.f_b.is_finite() {
            fail!("{what}.integral(..) evaluates to {} / {} at a={}, b={}", hex(obs.f_a), hex(obs.f_b), hex(a), hex(b));
        }
        let got = d(obs.f_b).sub(&d(obs.f_a));
        let b2 = factor(&d(ky).abs().add(&mk).add(&ma).add(&mb)).add(&ma.add(&mb).mul_pow2(-300));
        if !got.sub(exact.dy()).abs().le(&b2) {
            let err = Bf::from_dy(&got.sub(exact.dy()).abs());
            fail!(
                "{what}.integral(knot=({}, {})): F(b)-F(a) = {} for a={}, b={} but ∫_a^b p(ln t) dt = {}; |error| = {:.3e} × the allowed {} (F = {:?})",
                hex(kx), hex(ky), got.show(), hex(a), hex(b), exact.dy().show(),
                if b2.is_zero() { f64::INFINITY } else { err.div(&Bf::from_dy(&b2)).to_f64() }, b2.show(), obs.integ_nums
            );
        }
        ctx.ratio(if deg == 4 { "quartic: |F(b)-F(a)-I| / bound" } else { "IntOfLog: |F(b)-F(a)-I| / (K·u·M)" }, {
            let e = got.sub(exact.dy()).abs();
            if e.is_zero() || b2.is_zero() { 0.0 } else { Bf::from_dy(&e).div(&Bf::from_dy(&b2)).to_f64() }
        });
        ctx.ratio("knot: |F(knot.x)-knot.y| / bound", ratio(obs.f_kx, &d(ky), &b1));
        // (d) indefinite() is an antiderivative too
        if !obs.i_a.is_finite() || !obs.i_b.is_finite() {
            fail!("{what}.indefinite() evaluates to {} / {} at a={}, b={}", hex(obs.i_a), hex(obs.i_b), hex(a), hex(b));
        }
        let got_i = d(obs.i_b).sub(&d(obs.i_a));
        let b3 = factor(&ma.add(&mb).add(&d(k_ind).abs().mul_u64(2))).add(&ma.add(&mb).mul_pow2(-300));
        if !got_i.sub(exact.dy()).abs().le(&b3) {
            let err = Bf::from_dy(&got_i.sub(exact.dy()).abs());
            fail!(
                "{what}.indefinite(): F(b)-F(a) = {} for a={}, b={} but ∫_a^b p(ln t) dt = {}; |error| = {:.3e} × the allowed {} (F = {:?})",
                got_i.show(), hex(a), hex(b), exact.dy().show(),
                if b3.is_zero() { f64::INFINITY } else { err.div(&Bf::from_dy(&b3)).to_f64() }, b3.show(), obs.indef_nums
            );
        }
        Outcome::Pass
    }
    fn size(&self, c: &Case) -> usize {
        c.p.len()
    }
}

/// numbers [k, c1..c4, u] of the quartic form of integrand p (computed with plain f64 as the
/// library's construction does; only used to ask the KF1 signature predicate)
pub fn lib_quartic_nums(p: &[f64]) -> Vec<f64> {
    let a = -p[0];
    let b = (a + p[1]) * 0.5;
    let c = (b - p[2]) * (1.0 / 3.0);
    let dd = (c + p[3]) * 0.25;
    let u = (dd - p[4]) * 24.0;
    vec![0.0, a, b, c, dd, u]
}
