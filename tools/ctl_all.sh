#!/usr/bin/env bash
# tools/ctl_all.sh [glob, e.g. "C*-x*"] : run every independent negative control (controls/*) against the checks that exercise the
# source files its patch touches (plus the check of the property it was written for).
cd "$(dirname "$0")/.."
for d in controls/${1:-C*}; do
  own=$(basename $d | cut -d- -f1)
  ids="$own"
  files=$(grep '^+++ b/' $d/patch.diff | sed 's#+++ b/##')
  for f in $files; do
    case $f in
      src/poly.rs) ids="$ids C01 C07 C08 C14 C15 C17 C11 C02 C19";;
      src/log_poly.rs) ids="$ids C01 C09 C10 C11 C13 C14 C17 C16";;
      src/piecewise.rs) ids="$ids C02 C03 C08 C11 C12 C13 C15 C16 C17 C19";;
      src/linear.rs) ids="$ids C06 C02 C03 C16";;
      src/spline.rs) ids="$ids C04 C05 C16";;
      *) ids="$ids C16";;
    esac
  done
  grep -q -i "serde\|borsh" $d/patch.diff && ids="$ids C18"
  ids=$(echo $ids | tr ' ' '\n' | sort -u | tr '\n' ' ')
  tools/ctl_run.sh $d $ids
done
echo finished
