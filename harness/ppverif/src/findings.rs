//! `known_findings.txt`: committed, line oriented, never written at run time.
//!
//! ```text
//! open:  property=<id> signature=<name> witness=<path relative to /verif> <what fails>
//! fixed: property=<id> <commit> <what failed>
//! ```
//! An `open` line (a) makes the check re-run the witness and print a
//! `KNOWN-FINDING:` line while it still fails and (b) lets generated inputs that
//! match the (narrow, input-only) signature predicate of that name be excluded
//! from judgement (and counted). A `fixed` line suppresses nothing.

use std::path::Path;

#[derive(Clone, Debug)]
pub struct OpenFinding {
    pub property: String,
    pub signature: String,
    pub witness: String,
    pub text: String,
}

#[derive(Default, Debug)]
pub struct Findings {
    pub open: Vec<OpenFinding>,
    pub fixed: Vec<String>,
}

impl Findings {
    pub fn load(path: &Path) -> Findings {
        let mut f = Findings::default();
        let Ok(s) = std::fs::read_to_string(path) else { return f };
        for line in s.lines() {
            let line = line.trim();
            if line.is_empty() || line.starts_with('#') {
                continue;
            }
            if let Some(rest) = line.strip_prefix("open:") {
                let mut property = String::new();
                let mut signature = String::new();
                let mut witness = String::new();
                let mut text = Vec::new();
                for tok in rest.split_whitespace() {
                    if let Some(v) = tok.strip_prefix("property=") {
                        if property.is_empty() {
                            property = v.to_string();
                            continue;
                        }
                    }
                    if let Some(v) = tok.strip_prefix("signature=") {
                        if signature.is_empty() {
                            signature = v.to_string();
                            continue;
                        }
                    }
                    if let Some(v) = tok.strip_prefix("witness=") {
                        if witness.is_empty() {
                            witness = v.to_string();
                            continue;
                        }
                    }
                    text.push(tok);
                }
                f.open.push(OpenFinding { property, signature, witness, text: text.join(" ") });
            } else if let Some(rest) = line.strip_prefix("fixed:") {
                f.fixed.push(rest.trim().to_string());
            }
        }
        f
    }
    pub fn is_open(&self, prop: &str, sig: &str) -> bool {
        self.open.iter().any(|o| o.property == prop && o.signature == sig)
    }
    pub fn open_for(&self, prop: &str) -> Vec<OpenFinding> {
        self.open.iter().filter(|o| o.property == prop).cloned().collect()
    }
}
