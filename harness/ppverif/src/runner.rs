//! Sharded, seed-deterministic proptest driver + statistics + replay files.

use crate::findings::Findings;
use arbitrary::Unstructured;
use proptest::strategy::{BoxedStrategy, Strategy};
use proptest::test_runner::{Config, RngSeed, TestCaseError, TestError, TestRunner};
use serde::de::DeserializeOwned;
use serde::Serialize;
use serde_json::{json, Value};
use std::cell::RefCell;
use std::collections::hash_map::DefaultHasher;
use std::collections::{BTreeMap, HashSet};
use std::fmt::Debug;
use std::hash::{Hash, Hasher};
use std::panic::{catch_unwind, AssertUnwindSafe};
use std::path::PathBuf;
use std::time::Instant;

pub const SHARDS: u32 = 16;
const DISTINCT_CAP: usize = 4_000_000;

#[derive(Clone, Copy, PartialEq, Eq, Debug)]
pub enum Tier {
    Quick,
    Thorough,
}
impl Tier {
    pub fn name(self) -> &'static str {
        match self {
            Tier::Quick => "quick",
            Tier::Thorough => "thorough",
        }
    }
    pub fn pick<T>(self, q: T, t: T) -> T {
        match self {
            Tier::Quick => q,
            Tier::Thorough => t,
        }
    }
}

#[derive(Debug)]
pub enum Outcome {
    Pass,
    /// outside the property's domain (counted, not judged)
    Skip(&'static str),
    /// input matches the signature of an open known finding (counted, not judged)
    Known(&'static str),
    Fail(String),
}

pub struct Ctx<'a> {
    pub tier: Tier,
    pub nontrivial: bool,
    pub labels: Vec<&'static str>,
    /// number of individual library results compared inside this case
    pub comparisons: u64,
    /// largest observed |error| / allowed bound per named clause (reported in the evidence)
    pub ratios: Vec<(&'static str, f64)>,
    findings: &'a Findings,
    prop: &'static str,
    /// strict: known-finding signatures are not tolerated (witness re-check / replay)
    pub strict: bool,
}
impl<'a> Ctx<'a> {
    pub fn new(tier: Tier, findings: &'a Findings, prop: &'static str, strict: bool) -> Self {
        Ctx { tier, nontrivial: false, labels: Vec::new(), comparisons: 0, ratios: Vec::new(), findings, prop, strict }
    }
    #[inline]
    pub fn label(&mut self, l: &'static str) {
        if !self.labels.contains(&l) {
            self.labels.push(l);
        }
    }
    /// record an observed error/bound ratio for the named clause
    #[inline]
    pub fn ratio(&mut self, clause: &'static str, r: f64) {
        if let Some(e) = self.ratios.iter_mut().find(|e| e.0 == clause) {
            if r > e.1 {
                e.1 = r;
            }
        } else {
            self.ratios.push((clause, r));
        }
    }
    /// Is `sig` listed as an *open* known finding for this property (and are we
    /// in a mode that tolerates known findings)?
    pub fn open(&self, sig: &str) -> bool {
        !self.strict && self.findings.is_open(self.prop, sig)
    }
}

thread_local! {
    static LAST_PANIC: RefCell<String> = RefCell::new(String::new());
}

pub fn install_quiet_panic_hook() {
    std::panic::set_hook(Box::new(|info| {
        let msg = if let Some(s) = info.payload().downcast_ref::<&str>() {
            s.to_string()
        } else if let Some(s) = info.payload().downcast_ref::<String>() {
            s.clone()
        } else {
            "<non-string panic payload>".to_string()
        };
        let loc = info.location().map(|l| format!(" at {}:{}", l.file(), l.line())).unwrap_or_default();
        LAST_PANIC.with(|p| *p.borrow_mut() = format!("{msg}{loc}"));
    }));
}

/// Run a piece of *library* code; a panic becomes `Err(message)`.
pub fn lib<T>(f: impl FnOnce() -> T) -> Result<T, String> {
    match catch_unwind(AssertUnwindSafe(f)) {
        Ok(v) => Ok(v),
        Err(_) => Err(LAST_PANIC.with(|p| p.borrow().clone())),
    }
}

/// `lib!(expr)`: evaluate a library expression, turning a panic into a failed case.
#[macro_export]
macro_rules! lib {
    ($e:expr) => {
        match $crate::runner::lib(|| $e) {
            Ok(v) => v,
            Err(m) => {
                return $crate::runner::Outcome::Fail(format!(
                    "library panicked on well-formed input: {} [in `{}`]",
                    m,
                    stringify!($e)
                ))
            }
        }
    };
}

/// `fail!(...)` → `return Outcome::Fail(format!(...))`
#[macro_export]
macro_rules! fail {
    ($($t:tt)*) => { return $crate::runner::Outcome::Fail(format!($($t)*)) };
}

pub trait Prop: Send + Sync + 'static {
    type Case: Clone + Debug + Hash + Serialize + DeserializeOwned + Send + 'static;
    fn id(&self) -> &'static str;
    /// how cases are generated and what makes one non-trivial
    fn rule(&self) -> String;
    fn assumptions(&self) -> Vec<String> {
        Vec::new()
    }
    /// total number of generated cases for the tier (split over SHARDS)
    fn cases(&self, tier: Tier) -> u64;
    fn strategy(&self, tier: Tier) -> BoxedStrategy<Self::Case>;
    fn check(&self, case: &Self::Case, ctx: &mut Ctx) -> Outcome;
    /// deterministic extra work (exhaustive small scopes, directed sweeps);
    /// each shard does the part `i % nshards == shard`. Second sink argument: scope name.
    fn extras(&self, _tier: Tier, _seed: u64, _shard: u32, _nshards: u32, _sink: &mut dyn FnMut(Self::Case, &'static str)) {}
    /// extra measured counters for the evidence file (e.g. states / transitions of a state exploration)
    fn extra_counters(&self) -> BTreeMap<String, u64> {
        BTreeMap::new()
    }
    /// names of scopes that `extras` enumerates completely
    fn exhaustive_scopes(&self, _tier: Tier) -> Vec<String> {
        Vec::new()
    }
    /// byte-level decoder for the coverage-guided fuzz target of this property
    fn from_bytes(&self, _u: &mut Unstructured) -> Option<Self::Case> {
        None
    }
    fn size(&self, _case: &Self::Case) -> usize {
        0
    }
}

#[derive(Default)]
pub struct Stats {
    pub evaluations: u64,
    pub comparisons: u64,
    pub nontrivial: u64,
    pub distinct: HashSet<u64>,
    pub distinct_overflow: u64,
    pub skips: BTreeMap<&'static str, u64>,
    pub known: BTreeMap<&'static str, u64>,
    pub labels: BTreeMap<&'static str, u64>,
    pub scopes: BTreeMap<&'static str, u64>,
    pub ratios: BTreeMap<&'static str, f64>,
    pub samples: Vec<Value>,
    pub largest: Option<(usize, Value)>,
    pub failures: Vec<Failure>,
    pub harness_bugs: Vec<String>,
}

pub struct Failure {
    pub shard: u32,
    pub origin: String,
    pub message: String,
    pub case_json: Value,
    pub case_debug: String,
}

impl Stats {
    fn merge(&mut self, o: Stats) {
        self.evaluations += o.evaluations;
        self.comparisons += o.comparisons;
        self.nontrivial += o.nontrivial;
        self.distinct_overflow += o.distinct_overflow;
        for h in o.distinct {
            if self.distinct.len() < DISTINCT_CAP {
                self.distinct.insert(h);
            }
        }
        for (k, v) in o.skips {
            *self.skips.entry(k).or_default() += v;
        }
        for (k, v) in o.known {
            *self.known.entry(k).or_default() += v;
        }
        for (k, v) in o.labels {
            *self.labels.entry(k).or_default() += v;
        }
        for (k, v) in o.scopes {
            *self.scopes.entry(k).or_default() += v;
        }
        for (k, v) in o.ratios {
            let e = self.ratios.entry(k).or_insert(0.0);
            if v > *e {
                *e = v;
            }
        }
        for s in o.samples {
            if self.samples.len() < 6 {
                self.samples.push(s);
            }
        }
        if let Some((sz, v)) = o.largest {
            if self.largest.as_ref().map_or(true, |(s, _)| sz > *s) {
                self.largest = Some((sz, v));
            }
        }
        self.failures.extend(o.failures);
        self.harness_bugs.extend(o.harness_bugs);
    }
}

fn splitmix(seed: u64, shard: u32) -> u64 {
    let mut z = seed
        .wrapping_mul(0x9E37_79B9_7F4A_7C15)
        .wrapping_add((shard as u64 + 1).wrapping_mul(0xBF58_476D_1CE4_E5B9));
    z = (z ^ (z >> 30)).wrapping_mul(0xBF58_476D_1CE4_E5B9);
    z = (z ^ (z >> 27)).wrapping_mul(0x94D0_49BB_1331_11EB);
    z ^ (z >> 31)
}

enum Eval {
    Out(Outcome),
    HarnessBug(String),
}

fn eval<P: Prop>(p: &P, case: &P::Case, ctx: &mut Ctx) -> Eval {
    match catch_unwind(AssertUnwindSafe(|| p.check(case, ctx))) {
        Ok(o) => Eval::Out(o),
        Err(_) => Eval::HarnessBug(LAST_PANIC.with(|m| m.borrow().clone())),
    }
}

fn hash_case<C: Hash>(c: &C) -> u64 {
    let mut h = DefaultHasher::new();
    c.hash(&mut h);
    h.finish()
}

fn record<P: Prop>(p: &P, st: &mut Stats, case: &P::Case, ctx: &Ctx, out: &Outcome, shard: u32, want_sample: bool) {
    st.evaluations += 1;
    st.comparisons += ctx.comparisons;
    match out {
        Outcome::Skip(r) => {
            *st.skips.entry(r).or_default() += 1;
            return;
        }
        Outcome::Known(r) => {
            *st.known.entry(r).or_default() += 1;
            return;
        }
        _ => {}
    }
    for l in &ctx.labels {
        *st.labels.entry(l).or_default() += 1;
    }
    if !matches!(out, Outcome::Fail(_)) {
        for (k, v) in &ctx.ratios {
            let e = st.ratios.entry(k).or_insert(0.0);
            if *v > *e {
                *e = *v;
            }
        }
    }
    if ctx.nontrivial {
        st.nontrivial += 1;
        if st.distinct.len() < DISTINCT_CAP / SHARDS as usize {
            st.distinct.insert(hash_case(case));
        } else {
            st.distinct_overflow += 1;
        }
        if want_sample && st.samples.len() < 2 && (shard < 3) {
            st.samples.push(serde_json::to_value(case).unwrap_or(Value::Null));
        }
        let sz = p.size(case);
        if sz > 0 && st.largest.as_ref().map_or(true, |(s, _)| sz > *s) {
            st.largest = Some((sz, serde_json::to_value(case).unwrap_or(Value::Null)));
        }
    }
}

fn run_shard<P: Prop>(p: &P, tier: Tier, seed: u64, shard: u32, cases: u32, findings: &Findings) -> Stats {
    let st = RefCell::new(Stats::default());
    let failed = std::cell::Cell::new(false);
    // for failures that depend on what the library was asked BEFORE (state kept between calls):
    // the case evaluated just before the first failing one, and the first failing case itself
    let prev_case: RefCell<Option<P::Case>> = RefCell::new(None);
    let first_fail: RefCell<Option<(Option<P::Case>, P::Case)>> = RefCell::new(None);
    if cases > 0 {
        let cfg = Config {
            cases,
            failure_persistence: None,
            rng_seed: RngSeed::Fixed(splitmix(seed, shard)),
            max_shrink_iters: 4_000,
            max_global_rejects: 1 << 30,
            max_local_rejects: 1 << 20,
            ..Config::default()
        };
        let mut runner = TestRunner::new(cfg);
        let strat = p.strategy(tier);
        let res = runner.run(&strat, |case| {
            let mut ctx = Ctx::new(tier, findings, p.id(), false);
            let ev = eval(p, &case, &mut ctx);
            match ev {
                Eval::HarnessBug(m) => {
                    if !failed.get() {
                        st.borrow_mut().harness_bugs.push(format!("{m}; case = {case:?}"));
                    }
                    // do not shrink harness bugs as if they were violations
                    Ok(())
                }
                Eval::Out(out) => {
                    if !failed.get() {
                        record(p, &mut st.borrow_mut(), &case, &ctx, &out, shard, true);
                    }
                    match out {
                        Outcome::Fail(m) => {
                            if !failed.get() {
                                *first_fail.borrow_mut() = Some((prev_case.borrow().clone(), case.clone()));
                            }
                            failed.set(true);
                            Err(TestCaseError::fail(m))
                        }
                        _ => {
                            if !failed.get() {
                                *prev_case.borrow_mut() = Some(case);
                            }
                            Ok(())
                        }
                    }
                }
            }
        });
        match res {
            Ok(()) => {}
            Err(TestError::Fail(_reason, min_case)) => {
                // re-evaluate the minimal case for the authoritative message
                let mut ctx = Ctx::new(tier, findings, p.id(), false);
                let reeval = eval(p, &min_case, &mut ctx);
                if let Eval::Out(Outcome::Fail(m)) = reeval {
                    st.borrow_mut().failures.push(Failure {
                        shard,
                        origin: format!("proptest shard {shard} (shrunk)"),
                        message: m,
                        case_json: serde_json::to_value(&min_case).unwrap_or(Value::Null),
                        case_debug: format!("{min_case:?}"),
                    });
                } else {
                    // The shrunk case passes when evaluated on its own: the failure depends on what was
                    // evaluated before it (the library keeps state between calls). Report the original
                    // failing case together with its predecessor as a two-step sequence.
                    let (prev, orig) = first_fail.borrow().clone().unwrap_or((None, min_case.clone()));
                    let mut seq: Vec<P::Case> = Vec::new();
                    if let Some(pc) = prev {
                        seq.push(pc);
                    }
                    seq.push(orig.clone());
                    let mut msg = String::new();
                    for c in &seq {
                        let mut ctx = Ctx::new(tier, findings, p.id(), false);
                        if let Eval::Out(Outcome::Fail(m)) = eval(p, c, &mut ctx) {
                            msg = m;
                        }
                    }
                    let reproduced = !msg.is_empty();
                    let message = format!(
                        "HISTORY-DEPENDENT failure: the failing case passes when evaluated on its own, i.e. the result depends on calls made before it (state kept between calls). {}{}",
                        if reproduced { "Reproduced by evaluating the recorded sequence (previous case, then failing case): " } else { "NOT reproduced by replaying (previous case, failing case); the failure was observed once in this process: " },
                        if reproduced { msg } else { _reason.to_string() }
                    );
                    st.borrow_mut().failures.push(Failure {
                        shard,
                        origin: format!("proptest shard {shard} (history-dependent, not shrunk)"),
                        message,
                        case_json: json!({ "sequence": seq.iter().map(|c| serde_json::to_value(c).unwrap_or(Value::Null)).collect::<Vec<_>>() }),
                        case_debug: format!("{seq:?}"),
                    });
                }
            }
            Err(TestError::Abort(r)) => {
                st.borrow_mut().harness_bugs.push(format!("proptest aborted: {r}"));
            }
        }
    }
    // deterministic extras
    let mut st = st.into_inner();
    {
        let mut first_fail_per_scope: HashSet<&'static str> = HashSet::new();
        let mut sink = |case: P::Case, scope: &'static str| {
            let mut ctx = Ctx::new(tier, findings, p.id(), false);
            match eval(p, &case, &mut ctx) {
                Eval::HarnessBug(m) => {
                    if st.harness_bugs.len() < 4 {
                        st.harness_bugs.push(format!("{m}; scope {scope}; case = {case:?}"));
                    }
                }
                Eval::Out(out) => {
                    *st.scopes.entry(scope).or_default() += 1;
                    record(p, &mut st, &case, &ctx, &out, shard, false);
                    if let Outcome::Fail(m) = out {
                        if first_fail_per_scope.insert(scope) {
                            st.failures.push(Failure {
                                shard,
                                origin: format!("scope {scope} (shard {shard})"),
                                message: m,
                                case_json: serde_json::to_value(&case).unwrap_or(Value::Null),
                                case_debug: format!("{case:?}"),
                            });
                        }
                    }
                }
            }
        };
        p.extras(tier, seed, shard, SHARDS, &mut sink);
    }
    st
}

pub struct RunReport {
    pub exit: i32,
}

pub fn verif_root() -> PathBuf {
    PathBuf::from(std::env::var("VERIF_ROOT").unwrap_or_else(|_| "/verif".to_string()))
}

pub fn scale() -> f64 {
    std::env::var("PPV_SCALE").ok().and_then(|s| s.parse().ok()).unwrap_or(1.0)
}

/// Run one property: proptest shards + extras, known-finding witnesses,
/// evidence, replay files. Returns the process exit code.
pub fn run_prop<P: Prop>(p: &P, tier: Tier, seed: u64, fuzz_stats: Option<Value>) -> i32 {
    let t0 = Instant::now();
    let root = verif_root();
    let findings = Findings::load(&root.join("known_findings.txt"));
    let id = p.id();
    let mut exit = 0;

    // 1. witnesses of open known findings for this property
    let mut known_lines = Vec::new();
    for f in findings.open_for(id) {
        let path = root.join(&f.witness);
        match std::fs::read_to_string(&path).ok().and_then(|s| serde_json::from_str::<Value>(&s).ok()) {
            None => {
                eprintln!("ERROR: cannot read witness {} of known finding {}", path.display(), f.signature);
                exit = 2;
            }
            Some(v) => match serde_json::from_value::<P::Case>(v["case"].clone()) {
                Err(e) => {
                    eprintln!("ERROR: witness {} does not decode: {e}", path.display());
                    exit = 2;
                }
                Ok(case) => {
                    let mut ctx = Ctx::new(tier, &findings, id, true);
                    match eval(p, &case, &mut ctx) {
                        Eval::Out(Outcome::Fail(m)) => {
                            println!("KNOWN-FINDING: property={id} {} [signature={} witness={} now: {}]", f.text, f.signature, f.witness, first_line(&m));
                            known_lines.push(json!({"signature": f.signature, "witness": f.witness, "still_fails": true, "message": m}));
                        }
                        Eval::Out(_) => {
                            println!("note: witness of known finding {} no longer fails", f.signature);
                            known_lines.push(json!({"signature": f.signature, "witness": f.witness, "still_fails": false}));
                        }
                        Eval::HarnessBug(m) => {
                            eprintln!("ERROR: harness panic on witness: {m}");
                            exit = 2;
                        }
                    }
                }
            },
        }
    }

    // 2. shards
    let total = ((p.cases(tier) as f64) * scale()).ceil() as u64;
    let per = (total / SHARDS as u64) as u32;
    let rem = (total % SHARDS as u64) as u32;
    let mut all = Stats::default();
    let results: Vec<Stats> = std::thread::scope(|s| {
        let hs: Vec<_> = (0..SHARDS)
            .map(|k| {
                let f = &findings;
                let n = per + if k < rem { 1 } else { 0 };
                std::thread::Builder::new()
                    .stack_size(64 << 20)
                    .spawn_scoped(s, move || run_shard(p, tier, seed, k, n, f))
                    .expect("spawn")
            })
            .collect();
        hs.into_iter().map(|h| h.join().unwrap_or_else(|_| {
            let mut st = Stats::default();
            st.harness_bugs.push("shard thread panicked".into());
            st
        })).collect()
    });
    for r in results {
        all.merge(r);
    }

    // 3. violations → replay files
    let replay_dir = root.join("replays");
    let _ = std::fs::create_dir_all(&replay_dir);
    let mut seen_msgs: HashSet<String> = HashSet::new();
    let mut nviol = 0;
    let mut suppressed = 0;
    // 2b. regression tier: saved cases under regress/<id>/*.json are replayed (strict) on every run
    let mut regress_n = 0u64;
    if let Ok(rd) = std::fs::read_dir(root.join("regress").join(id)) {
        let mut files: Vec<_> = rd.filter_map(|e| e.ok()).map(|e| e.path()).filter(|p| p.extension().map_or(false, |x| x == "json")).collect();
        files.sort();
        for path in files {
            let Some(v) = std::fs::read_to_string(&path).ok().and_then(|s| serde_json::from_str::<Value>(&s).ok()) else {
                eprintln!("ERROR: unreadable regression file {}", path.display());
                exit = exit.max(2);
                continue;
            };
            let cv = if v.get("case").is_some() { v["case"].clone() } else { v };
            match serde_json::from_value::<P::Case>(cv) {
                Err(e) => {
                    eprintln!("ERROR: regression file {} does not decode: {e}", path.display());
                    exit = exit.max(2);
                }
                Ok(case) => {
                    regress_n += 1;
                    let mut ctx = Ctx::new(tier, &findings, id, false);
                    match eval(p, &case, &mut ctx) {
                        Eval::Out(Outcome::Fail(m)) => {
                            println!("VIOLATION property={id} replay={}", path.display());
                            println!("  (saved regression case) {}", m.replace('\n', "\n  "));
                            nviol += 1;
                            exit = exit.max(1);
                        }
                        Eval::Out(_) => {}
                        Eval::HarnessBug(m) => {
                            eprintln!("HARNESS ERROR on regression file {}: {m}", path.display());
                            exit = exit.max(2);
                        }
                    }
                }
            }
        }
    }
    for f in &all.failures {
        let key = first_line(&f.message);
        if !seen_msgs.insert(key) || nviol >= 3 {
            suppressed += 1;
            continue;
        }
        nviol += 1;
        let path = replay_dir.join(format!("{id}-{}-seed{seed}-shard{}-{}.json", tier.name(), f.shard, nviol));
        let doc = json!({
            "property": id, "tier": tier.name(), "seed": seed, "shard": f.shard, "origin": f.origin,
            "message": f.message, "case": f.case_json, "case_debug": f.case_debug,
            "replay": format!("cd /verif && ./check --replay {id} {}", path.display()),
        });
        let _ = std::fs::write(&path, serde_json::to_string_pretty(&doc).unwrap());
        println!("VIOLATION property={id} replay={}", path.display());
        println!("  {}", f.message.replace('\n', "\n  "));
        println!("  minimal case: {}", truncate(&f.case_debug, 1500));
        exit = exit.max(1);
    }
    if let Some(fs) = &fuzz_stats {
        if let Some(arr) = fs.get("violations").and_then(|v| v.as_array()) {
            for v in arr {
                println!("VIOLATION property={id} replay={}", v.as_str().unwrap_or("?"));
                nviol += 1;
                exit = exit.max(1);
            }
        }
    }
    if !all.harness_bugs.is_empty() {
        eprintln!("HARNESS ERROR (not a property violation): {}", truncate(&all.harness_bugs[0], 3000));
        if exit == 0 {
            exit = 2;
        }
    }

    // 4. evidence
    let distinct = all.distinct.len() as u64;
    let mut samples: Vec<Value> = all.samples.iter().map(|v| compact(v, 48)).collect();
    if let Some((sz, v)) = &all.largest {
        samples.push(json!({"largest_case": compact(v, 48), "its_size_measure": sz}));
    }
    if samples.is_empty() {
        samples.push(json!("no non-trivial case was generated"));
    }
    let skipped: u64 = all.skips.values().sum();
    let known: u64 = all.known.values().sum();
    let mut assumptions = p.assumptions();
    assumptions.push("x86-64 Linux, IEEE-754 binary64, Rust does not contract or re-associate float operations; harness built --release with debug-assertions and overflow-checks on".into());
    assumptions.push("exact dyadic arithmetic / 384-bit big-float of ppv-exact (self-tested at start of every run) is the numeric reference".into());
    let ev = json!({
        "property_id": id,
        "tier": tier.name(),
        "seed": seed,
        "level": "exploration",
        "coverage": {
            "evaluations": all.evaluations,
            "distinct_nontrivial": distinct,
            "nontrivial_total": all.nontrivial,
            "distinct_counting": format!("64-bit hash of the case (floats by bit pattern) in a set capped at {} entries per shard; {} non-trivial cases arrived after the cap and were not counted", DISTINCT_CAP / SHARDS as usize, all.distinct_overflow),
            "rule": p.rule(),
            "samples": samples,
            "library_results_compared": all.comparisons,
            "labels": all.labels,
            "excluded_out_of_domain": all.skips,
            "excluded_out_of_domain_total": skipped,
            "excluded_known_finding": all.known,
            "excluded_known_finding_total": known,
            "deterministic_scopes": all.scopes,
            "max_observed_error_over_allowed_bound": all.ratios,
            "regression_cases_replayed": regress_n,
            "further_failing_shards_not_listed": suppressed,
            "extra_counters": p.extra_counters(),
            "exhaustive_scopes": p.exhaustive_scopes(tier),
            "exhaustive": false,
            "shards": SHARDS,
            "known_findings": known_lines,
            "fuzz": fuzz_stats.unwrap_or(Value::Null),
            "scale": scale(),
        },
        "assumptions": assumptions,
        "wall_s": t0.elapsed().as_secs_f64(),
        "violations": nviol,
    });
    // sensitivity experiments (mutants, seeded changes) run against a MODIFIED /repo: their evidence must not
    // overwrite the committed evidence of the unchanged tree, so they redirect it (VERIF_EVIDENCE_DIR)
    let ev_dir = std::env::var("VERIF_EVIDENCE_DIR").map(PathBuf::from).unwrap_or_else(|_| root.join("evidence"));
    let _ = std::fs::create_dir_all(&ev_dir);
    let mut ev = ev;
    // configuration axis (C18): embed the summary of the run in the other build configuration
    if let Ok(mp) = std::env::var("PPV_MERGE_EVIDENCE") {
        match std::fs::read_to_string(&mp).ok().and_then(|s| serde_json::from_str::<Value>(&s).ok()) {
            Some(other) => {
                let oc = &other["coverage"];
                ev["coverage"]["other_build_configuration"] = json!({
                    "evaluations": oc["evaluations"], "distinct_nontrivial": oc["distinct_nontrivial"], "labels": oc["labels"],
                    "rule": oc["rule"], "violations": other["violations"], "wall_s": other["wall_s"],
                });
            }
            None => {
                eprintln!("ERROR: cannot read evidence of the other build configuration at {mp}");
                exit = exit.max(2);
            }
        }
    }
    let ev_path = std::env::var("PPV_EVIDENCE_OUT").map(PathBuf::from).unwrap_or_else(|_| ev_dir.join(format!("{id}.json")));
    if let Err(e) = std::fs::write(&ev_path, serde_json::to_string_pretty(&ev).unwrap()) {
        eprintln!("ERROR: cannot write evidence: {e}");
        exit = exit.max(2);
    }
    println!(
        "{id} {}: {} cases, {} non-trivial ({} distinct), {} out-of-domain, {} known-finding-excluded, {} comparisons, {} violation(s), {:.1}s",
        tier.name(), all.evaluations, all.nontrivial, distinct, skipped, known, all.comparisons, nviol, t0.elapsed().as_secs_f64()
    );
    if distinct < 2 && exit == 0 {
        eprintln!("ERROR: fewer than 2 distinct non-trivial cases: generator is broken");
        exit = 2;
    }
    exit
}

pub fn replay_prop<P: Prop>(p: &P, path: &str) -> i32 {
    let root = verif_root();
    let findings = Findings::load(&root.join("known_findings.txt"));
    let s = match std::fs::read_to_string(path) {
        Ok(s) => s,
        Err(e) => {
            eprintln!("cannot read {path}: {e}");
            return 2;
        }
    };
    let v: Value = match serde_json::from_str(&s) {
        Ok(v) => v,
        Err(e) => {
            eprintln!("bad json: {e}");
            return 2;
        }
    };
    let cv = if v.get("case").is_some() { v["case"].clone() } else { v };
    if let Some(seq) = cv.get("sequence").and_then(|s| s.as_array()) {
        // history-dependent failure: evaluate the recorded cases in order, in this one process
        let mut worst = 0;
        for (i, item) in seq.iter().enumerate() {
            match serde_json::from_value::<P::Case>(item.clone()) {
                Ok(c) => {
                    println!("--- sequence step {i}");
                    worst = worst.max(replay_case(p, &c, &findings));
                }
                Err(e) => {
                    eprintln!("sequence step {i} does not decode: {e}");
                    return 2;
                }
            }
        }
        return worst;
    }
    let case: P::Case = match serde_json::from_value(cv) {
        Ok(c) => c,
        Err(e) => {
            eprintln!("case does not decode: {e}");
            return 2;
        }
    };
    replay_case(p, &case, &findings)
}

fn replay_case<P: Prop>(p: &P, case: &P::Case, findings: &Findings) -> i32 {
    println!("case: {case:#?}");
    let mut ctx = Ctx::new(Tier::Quick, findings, p.id(), true);
    match eval(p, case, &mut ctx) {
        Eval::Out(Outcome::Pass) => {
            println!("verdict: PASS (labels {:?}, nontrivial {})", ctx.labels, ctx.nontrivial);
            0
        }
        Eval::Out(Outcome::Skip(r)) => {
            println!("verdict: outside the property's domain ({r})");
            0
        }
        Eval::Out(Outcome::Known(r)) => {
            println!("verdict: known finding {r}");
            0
        }
        Eval::Out(Outcome::Fail(m)) => {
            println!("verdict: FAIL\n{m}");
            println!("VIOLATION property={} replay=(this file)", p.id());
            1
        }
        Eval::HarnessBug(m) => {
            eprintln!("harness panic: {m}");
            2
        }
    }
}

pub fn replay_bytes_prop<P: Prop>(p: &P, path: &str) -> i32 {
    let root = verif_root();
    let findings = Findings::load(&root.join("known_findings.txt"));
    let data = match std::fs::read(path) {
        Ok(d) => d,
        Err(e) => {
            eprintln!("cannot read {path}: {e}");
            return 2;
        }
    };
    let mut u = Unstructured::new(&data);
    match p.from_bytes(&mut u) {
        None => {
            println!("bytes do not decode to a case (ignored by the fuzz target)");
            0
        }
        Some(case) => replay_case(p, &case, &findings),
    }
}

/// Entry point used by the libFuzzer targets: panics on a violation.
pub fn fuzz_one<P: Prop>(p: &P, data: &[u8], findings: &Findings) {
    let mut u = Unstructured::new(data);
    if let Some(case) = p.from_bytes(&mut u) {
        let mut ctx = Ctx::new(Tier::Thorough, findings, p.id(), false);
        match p.check(&case, &mut ctx) {
            Outcome::Fail(m) => {
                eprintln!("VIOLATION-IN-FUZZ property={} {m}\ncase: {case:?}", p.id());
                std::process::abort();
            }
            _ => {}
        }
    }
}

/// Keep evidence files small: arrays longer than `max` elements are cut to their first `max/2` elements
/// plus a marker saying how many were omitted (a 70 000-segment sample would otherwise weigh megabytes).
fn compact(v: &Value, max: usize) -> Value {
    match v {
        Value::Array(a) => {
            if a.len() > max {
                let mut out: Vec<Value> = a.iter().take(max / 2).map(|x| compact(x, max)).collect();
                out.push(Value::String(format!("... {} more elements omitted from this sample (total {})", a.len() - max / 2, a.len())));
                Value::Array(out)
            } else {
                Value::Array(a.iter().map(|x| compact(x, max)).collect())
            }
        }
        Value::Object(o) => Value::Object(o.iter().map(|(k, x)| (k.clone(), compact(x, max))).collect()),
        other => other.clone(),
    }
}

fn first_line(s: &str) -> String {
    s.lines().next().unwrap_or("").chars().take(200).collect()
}
fn truncate(s: &str, n: usize) -> String {
    if s.len() <= n {
        s.to_string()
    } else {
        let mut e = n;
        while !s.is_char_boundary(e) {
            e -= 1;
        }
        format!("{}…", &s[..e])
    }
}

/// Type-erased interface for the CLI.
pub trait DynProp: Send + Sync {
    fn id(&self) -> &'static str;
    fn run(&self, tier: Tier, seed: u64, fuzz_stats: Option<Value>) -> i32;
    fn replay(&self, path: &str) -> i32;
    fn replay_bytes(&self, path: &str) -> i32;
    fn fuzz(&self, data: &[u8], findings: &Findings);
    /// dump n generated cases as JSON lines (for the oracle audit)
    fn dump(&self, tier: Tier, seed: u64, n: u32) -> Vec<Value>;
}
impl<P: Prop> DynProp for P {
    fn id(&self) -> &'static str {
        Prop::id(self)
    }
    fn run(&self, tier: Tier, seed: u64, fuzz_stats: Option<Value>) -> i32 {
        run_prop(self, tier, seed, fuzz_stats)
    }
    fn replay(&self, path: &str) -> i32 {
        replay_prop(self, path)
    }
    fn replay_bytes(&self, path: &str) -> i32 {
        replay_bytes_prop(self, path)
    }
    fn fuzz(&self, data: &[u8], findings: &Findings) {
        fuzz_one(self, data, findings)
    }
    fn dump(&self, tier: Tier, seed: u64, n: u32) -> Vec<Value> {
        let cfg = Config { cases: n, failure_persistence: None, rng_seed: RngSeed::Fixed(seed), ..Config::default() };
        let mut runner = TestRunner::new(cfg);
        let out = RefCell::new(Vec::new());
        let strat = self.strategy(tier);
        let _ = runner.run(&strat, |case| {
            out.borrow_mut().push(serde_json::to_value(&case).unwrap_or(Value::Null));
            Ok(())
        });
        out.into_inner()
    }
}

/// helper for strategies: monotone index mapping (keeps shrinking monotone)
#[inline]
pub fn idx(i: u16, len: usize) -> usize {
    ((i as usize) * len) >> 16
}

pub fn boxed<S: Strategy + 'static>(s: S) -> BoxedStrategy<S::Value> {
    s.boxed()
}
